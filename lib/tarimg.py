"""tarimg - independent tar writer (all dialects tar2sqfs documents), reference reader hooks
and the reference model of what tar2sqfs must store (DESIGN Appendix B).

An archive is a list of entries (dicts):
  name   raw member name as stored (bytes; may start with './' or '/', contain '//' ...)
  type   'file' | 'dir' | 'slink' | 'hlink' | 'chr' | 'blk' | 'fifo'
  mode uid gid mtime(int; may be negative or > 2^33; 'mtime_frac' optional string of digits)
  data   logical file contents (bytes)        [file]
  sparse None or list of (offset, length) data segments [file]
  linkname raw bytes                            [slink, hlink]
  major minor                                   [chr, blk]
  xattrs {key: value}
  enc    encoding choices: fmt ('v7'|'ustar'|'gnu'), longname ('prefix'|'gnu'|'pax'), num ('octal'|'base256'|'pax'),
         ostyle (0..2), sparsefmt ('old'|'0.0'|'0.1'|'1.0'), xattrfmt ('schily'|'libarchive'), pax_mtime (bool)
"""
import struct, hashlib, base64, io, os
from hypothesis import strategies as st
import treemodel

BLOCK = 512


# ------------------------------------------------------------------ low-level field encoders
def _octal(v, width, style):
    """style 0: zero padded + NUL; 1: zero padded + space; 2: space padded + NUL; 3: full width, no terminator"""
    if style == 3:
        s = b"%0*o" % (width, v)
        if len(s) == width:
            return s
        style = 0
    s = b"%o" % v
    if len(s) > width - 1:
        raise OverflowError
    if style == 0:
        return s.rjust(width - 1, b"0") + b"\0"
    if style == 1:
        return s.rjust(width - 1, b"0") + b" "
    return s.rjust(width - 1, b" ") + b"\0"


def _base256(v, width):
    if v >= 0:
        b = v.to_bytes(width, "big")
        if b[0] & 0x80:
            raise OverflowError
        return bytes([b[0] | 0x80]) + b[1:]
    b = (v + (1 << (8 * width))).to_bytes(width, "big")
    return b


def _num(v, width, enc, pax, paxkey):
    """Encode a number in a header field; may divert to a PAX record (returns the field bytes)."""
    how = enc.get("num", "octal")
    style = enc.get("ostyle", 0)
    fits_octal = 0 <= v < 8 ** (width - 1)
    if how == "pax" and paxkey:
        pax[paxkey] = b"%d" % v
        return _octal(v if fits_octal else 0, width, style)
    if how == "base256" or not fits_octal:
        if enc.get("fmt") == "gnu" or how == "base256":
            return _base256(v, width)
        if paxkey:
            pax[paxkey] = b"%d" % v
            return _octal(0, width, style)
        return _base256(v, width)
    return _octal(v, width, style)


def _header(name, mode, uid, gid, size, mtime, typeflag, linkname, fmt, major=0, minor=0, prefix=b"", enc=None, pax=None, gnu_sparse=None):
    enc = enc or {}
    pax = pax if pax is not None else {}
    h = bytearray(512)
    h[0:len(name)] = name
    h[100:108] = _octal(mode & 0o7777, 8, enc.get("ostyle", 0) if enc.get("ostyle", 0) != 3 else 0)
    h[108:116] = _num(uid, 8, enc, pax, "uid")
    h[116:124] = _num(gid, 8, enc, pax, "gid")
    h[124:136] = _num(size, 12, enc, pax, "size")
    h[136:148] = _num(mtime, 12, enc, pax, "mtime")
    h[156:157] = typeflag
    h[157:157 + len(linkname)] = linkname
    if fmt == "ustar":
        h[257:263] = b"ustar\0"
        h[263:265] = b"00"
        h[345:345 + len(prefix)] = prefix
    elif fmt == "gnu":
        h[257:263] = b"ustar "
        h[263:265] = b" \0"
    if fmt != "v7":
        h[265:269] = b"root"
        h[297:301] = b"root"
        if typeflag in (b"3", b"4") or enc.get("dev_always"):
            h[329:337] = _octal(major, 8, 0)
            h[337:345] = _octal(minor, 8, 0)
    if gnu_sparse is not None:
        ents, isext, realsize = gnu_sparse
        pos = 386
        for off, n in ents:
            h[pos:pos + 12] = _octal(off, 12, 0)
            h[pos + 12:pos + 24] = _octal(n, 12, 0)
            pos += 24
        h[482] = 1 if isext else 0
        h[483:495] = _octal(realsize, 12, 0) if realsize < 8 ** 11 else _base256(realsize, 12)
    h[148:156] = b" " * 8
    cs = sum(h)
    h[148:156] = b"%06o\0 " % cs
    return bytes(h)


def _pad(data):
    r = len(data) % BLOCK
    return data + (b"\0" * (BLOCK - r) if r else b"")


def _pax_records(recs):
    out = b""
    for k, v in recs:
        body = b" " + k + b"=" + v + b"\n"
        n = len(body) + 1
        while len(b"%d" % n) + len(body) != n:
            n = len(b"%d" % n) + len(body)
        out += b"%d" % n + body
    return out


def _urlenc(k):
    out = bytearray()
    for c in k:
        if c in b"%=" or c < 0x21 or c > 0x7E:
            out += b"%%%02X" % c
        else:
            out.append(c)
    return bytes(out)


def encode_entry(e, idx=0, force_pax_names=False):
    """Long names use GNU L/K records or PAX path/linkpath, never both kinds of extension for one entry
    (no archiver mixes them): when any PAX record is needed, long names go into it as well."""
    enc = dict(e.get("enc") or {})
    if force_pax_names:
        enc["longname"] = "pax"
    fmt = enc.get("fmt", "ustar")
    name = e["name"]
    t = e["type"]
    pax = {}
    paxl = []  # ordered records (sparse 0.0 needs repeated keys)
    pre = b""
    tf = {"file": b"0", "dir": b"5", "slink": b"2", "hlink": b"1", "chr": b"3", "blk": b"4", "fifo": b"6"}[t]
    if t == "file" and enc.get("typeflag_nul"):
        tf = b"\0"
    link = e.get("linkname", b"") if t in ("slink", "hlink") else b""
    hname, prefix = name, b""
    ln = enc.get("longname", "gnu")
    if len(name) > 100 or (len(name) == 100 and ln != "exact"):
        done = False
        if ln == "prefix" and fmt == "ustar":
            # split at a slash: prefix <= 155, name <= 100
            for i in range(len(name)):
                if name[i:i + 1] == b"/" and i <= 155 and 0 < len(name) - i - 1 <= 100 and i > 0:
                    prefix, hname = name[:i], name[i + 1:]
                    done = True
                    break
        if not done:
            if ln == "pax" or fmt == "v7" and False:
                pax["path"] = name
                hname = name[:100]
            else:
                pre += _header(b"././@LongLink", 0o644, 0, 0, len(name) + 1, 0, b"L", b"", "gnu") + _pad(name + b"\0")
                hname = name[:100]
    elif ln == "pax" and enc.get("pax_always"):
        pax["path"] = name
    if len(link) > 100 or (len(link) == 100 and ln != "exact"):
        if ln == "pax":
            pax["linkpath"] = link
        else:
            pre += _header(b"././@LongLink", 0o644, 0, 0, len(link) + 1, 0, b"K", b"", "gnu") + _pad(link + b"\0")
        link = link[:100]
    # xattrs
    for k, v in (e.get("xattrs") or {}).items():
        if enc.get("xattrfmt", "schily") == "schily":
            paxl.append((b"SCHILY.xattr." + k, v))
        else:
            paxl.append((b"LIBARCHIVE.xattr." + _urlenc(k), base64.b64encode(v)))
    mtime = e["mtime"]
    if enc.get("pax_mtime") or e.get("mtime_frac"):
        pax["mtime"] = b"%d" % mtime + ((b"." + e["mtime_frac"].encode()) if e.get("mtime_frac") else b"")
        hm = min(max(mtime, 0), 8 ** 11 - 1)
    else:
        hm = mtime
    data = e.get("data", b"") if t == "file" else b""
    payload = data
    size = len(data)
    gnu_sparse = None
    extra_blocks = b""
    if t == "file" and e.get("sparse") is not None:
        segs = e["sparse"]
        stored = b"".join(data[o:o + n] for o, n in segs)
        sf = enc.get("sparsefmt", "1.0")
        if sf == "old":
            fmt = "gnu"
            tf = b"S"
            first, rest = segs[:4], segs[4:]
            gnu_sparse = (first, bool(rest), len(data))
            while rest:
                blk = bytearray(512)
                chunk, rest = rest[:21], rest[21:]
                pos = 0
                for o, n in chunk:
                    blk[pos:pos + 12] = _octal(o, 12, 0)
                    blk[pos + 12:pos + 24] = _octal(n, 12, 0)
                    pos += 24
                blk[504] = 1 if rest else 0
                extra_blocks += bytes(blk)
            payload = stored
            size = len(stored)
        elif sf == "0.0":
            paxl.append((b"GNU.sparse.size", b"%d" % len(data)))
            paxl.append((b"GNU.sparse.numblocks", b"%d" % len(segs)))
            for o, n in segs:
                paxl.append((b"GNU.sparse.offset", b"%d" % o))
                paxl.append((b"GNU.sparse.numbytes", b"%d" % n))
            payload = stored
            size = len(stored)
        elif sf == "0.1":
            paxl.append((b"GNU.sparse.size", b"%d" % len(data)))
            paxl.append((b"GNU.sparse.numblocks", b"%d" % len(segs)))
            paxl.append((b"GNU.sparse.name", name))
            paxl.append((b"GNU.sparse.map", b",".join(b"%d,%d" % (o, n) for o, n in segs)))
            hname = (b"GNUSparseFile.0/" + name.split(b"/")[-1])[:100]
            payload = stored
            size = len(stored)
        else:
            paxl.append((b"GNU.sparse.major", b"1"))
            paxl.append((b"GNU.sparse.minor", b"0"))
            paxl.append((b"GNU.sparse.name", name))
            paxl.append((b"GNU.sparse.realsize", b"%d" % len(data)))
            hname = (b"GNUSparseFile.0/" + name.split(b"/")[-1])[:100]
            m = b"%d\n" % len(segs) + b"".join(b"%d\n%d\n" % (o, n) for o, n in segs)
            payload = _pad(m) + stored
            size = len(payload)
    hdr = _header(hname[:100], e["mode"], e["uid"], e["gid"], size, hm, tf, link[:100], fmt, e.get("major", 0), e.get("minor", 0),
                  prefix, enc, pax, gnu_sparse)
    recs = [(k.encode(), v) for k, v in pax.items()] + paxl
    if recs and pre and not force_pax_names:
        return encode_entry(e, idx, True)
    if recs:
        body = _pax_records(recs)
        pre += _header(b"PaxHeaders/e%d" % idx, 0o644, 0, 0, len(body), 0, b"x", b"", "ustar") + _pad(body)
    return pre + hdr + extra_blocks + _pad(payload)


def encode_archive(entries, end_marker=True, global_pax=False, trailing_pad=0):
    out = b""
    if global_pax:
        body = _pax_records([(b"comment", b"global header, must be ignored")])
        out += _header(b"pax_global_header", 0o644, 0, 0, len(body), 0, b"g", b"", "ustar") + _pad(body)
    for i, e in enumerate(entries):
        out += encode_entry(e, i)
    if end_marker:
        out += b"\0" * 1024
    out += b"\0" * (512 * trailing_pad)
    return out


# ------------------------------------------------------------------ reference semantics (Appendix B)
def canon(name):
    parts = [c for c in name.split(b"/") if c not in (b"", b".")]
    if b".." in parts:
        return None
    return b"/".join(parts)


SUPPORTED_XATTR = (b"user.", b"trusted.", b"security.")


def expected_from_archive(entries, o):
    """-> expected tree in the format of treemodel.expected_tree (for compare_trees), honouring tar2sqfs options o:
    root_becomes, no_symlink_retarget, no_keep_time, no_xattr, defaults, source_date_epoch."""
    d = o.get("defaults", {})
    dmt = treemodel.default_mtime(o)
    duid, dgid, dmode = d.get("uid", 0), d.get("gid", 0), d.get("mode", 0o755)
    keep_time = not o.get("no_keep_time")
    rb = o.get("root_becomes")
    rb = canon(rb) if rb is not None else None

    def implicit():
        return dict(type="dir", mode=dmode & 0o7777, uid=duid, gid=dgid, mtime=dmt, xattrs={}, group=None, implicit=True)
    exp = {b"": implicit()}
    exp[b""]["root_default_time"] = True
    links = []
    for e in entries:
        name = canon(e["name"])
        if name is None:
            raise treemodel.Unrepresentable("member name with '..'")
        link = e.get("linkname")
        is_root = False
        if rb is not None:
            if name == rb:
                is_root = True
            elif name.startswith(rb + b"/"):
                name = name[len(rb) + 1:]
            else:
                continue
            if link is not None and (e["type"] == "hlink" or not o.get("no_symlink_retarget")):
                cl = canon(link)
                if cl is not None and cl.startswith(rb + b"/"):
                    link = b"/" + cl[len(rb) + 1:]
        elif name == b"":
            is_root = True
        mt = min(max(e["mtime"], 0), 0xFFFFFFFF) if keep_time else dmt
        xa = {}
        if not o.get("no_xattr"):
            for k, v in (e.get("xattrs") or {}).items():
                if k.startswith(SUPPORTED_XATTR):
                    xa[k] = v
                elif o.get("no_skip"):
                    raise treemodel.Unrepresentable("unsupported xattr prefix with --no-skip")
        if is_root:
            if e["type"] != "dir":
                raise treemodel.Unrepresentable("root entry is not a directory")
            r = exp[b""]
            r.update(mode=e["mode"] & 0o7777, uid=e["uid"], gid=e["gid"], xattrs=xa)
            r.pop("implicit", None)
            if keep_time:
                r["mtime"] = mt
                r["root_time_from_entry"] = True
            continue
        for p in treemodel.parents_of(name):
            if p not in exp:
                exp[p] = implicit()
            elif exp[p]["type"] != "dir":
                raise treemodel.Unrepresentable("parent is not a directory")
        t = e["type"]
        if t == "hlink":
            links.append((name, canon(link) if link is not None else None))
            if name in exp:
                raise treemodel.Unrepresentable("duplicate entry")
            exp[name] = None
            continue
        n = dict(type=t, mode=e["mode"] & 0o7777, uid=e["uid"] & 0xFFFFFFFF, gid=e["gid"] & 0xFFFFFFFF, mtime=mt, xattrs=xa, group=name)
        if t == "slink":
            n["mode"] = 0o777
            n["target"] = link
        elif t in ("chr", "blk"):
            n["devno"] = (e["major"] << 8 & 0xFFF00) | (e["minor"] & 0xFF) | ((e["minor"] & 0xFFF00) << 12)
        elif t == "file":
            n["size"] = len(e["data"])
            n["sha"] = hashlib.sha256(e["data"]).hexdigest()
        elif t == "dir":
            n["group"] = None
        if name in exp:
            if t == "dir" and exp[name] is not None and exp[name].get("implicit"):
                exp[name] = n
                continue
            raise treemodel.Unrepresentable("duplicate entry %r" % name)
        exp[name] = n
    # resolve hard links (targets may appear before or after; chains allowed)
    for name, tgt in links:
        seen = set()
        cur = tgt
        while True:
            if cur is None or cur not in exp or cur in seen:
                raise treemodel.Unrepresentable("hard link %r does not resolve" % name)
            seen.add(cur)
            if exp[cur] is not None:
                break
            cur = dict(links).get(cur)
        if exp[cur]["type"] == "dir":
            raise treemodel.Unrepresentable("hard link to a directory")
        exp[name] = exp[cur]
    return exp


# ------------------------------------------------------------------ Hypothesis generators
def _segments(draw, size):
    """random sorted non-overlapping data segments inside [0,size]"""
    if size == 0:
        return [(0, 0)]
    # mostly few segments; sometimes enough to fill several old-GNU extension headers (4 + 21 per header) / more than
    # one 512 byte block of a sparse 1.0 map
    n = draw(st.one_of(st.integers(0, 8), st.integers(0, 8), st.sampled_from([4, 5, 21, 25, 26, 40, 46, 47, 60, 90, 130])))
    n = min(n, size // 2)
    cuts = sorted(set(draw(st.lists(st.integers(0, size), min_size=2 * n, max_size=2 * n))))
    segs = []
    for i in range(0, len(cuts) - 1, 2):
        segs.append((cuts[i], cuts[i + 1] - cuts[i]))
    style = draw(st.integers(0, 3))
    if style == 0 or not segs:
        segs.append((size, 0))  # GNU tar's terminating empty segment
    return segs


@st.composite
def archives(draw, max_entries=12, B=4096, allow_sparse=True, allow_xattr=True, simple_names=False):
    nm = treemodel.name_bytes(allow_newline=True, maxlen=200) if not simple_names else st.sampled_from([b"a", b"b", b"c", b"dir", b"x.y", b"f1", b"f2"])
    prefix_style = draw(st.sampled_from([b"", b"", b"./", b"/", b".//"]))
    n = draw(st.integers(1, max_entries))
    entries = []
    dirs = [b""]
    used = set()
    fmt = draw(st.sampled_from(["ustar", "ustar", "gnu", "gnu", "v7", "mixed"]))
    idst = st.one_of(st.sampled_from([0, 1000, 65534, 2097151, 2097152, 0x7FFFFFFF, 0xFFFFFFFF]), st.integers(0, 70000))
    if draw(st.integers(0, 3)) == 0:
        # explicit root entry
        entries.append(dict(name=prefix_style or b"./", type="dir", mode=draw(treemodel.modes()), uid=draw(idst), gid=draw(idst),
                            mtime=draw(st.integers(0, 0xFFFFFFFF)),
                            xattrs=draw(treemodel.xattr_sets(max_keys=2)) if allow_xattr and draw(st.sampled_from([False, False, True])) else {},
                            enc=dict(fmt="ustar")))
    for i in range(n):
        parent = draw(st.sampled_from(dirs))
        lenclass = draw(st.integers(0, 9))
        if lenclass == 0:
            L = draw(st.sampled_from([99, 100, 101, 155, 156, 157, 255, 256]))
            comp = draw(st.integers(1, 3))
            name = b"/".join((b"n%d" % i).ljust(max(1, L // comp - 1), b"x") for _ in range(comp))
            name = name[:256] if b"/" not in name else name
            base = name
        else:
            base = draw(nm)
        path = parent + b"/" + base if parent else base
        if any(len(c) > 256 for c in path.split(b"/")):
            continue
        if path in used or any(path.startswith(u + b"/") and u not in dirs for u in used):
            continue
        f = fmt if fmt != "mixed" else draw(st.sampled_from(["ustar", "gnu", "v7"]))
        enc = dict(fmt=f, longname=draw(st.sampled_from(["gnu", "pax", "prefix"])), num=draw(st.sampled_from(["octal", "octal", "base256", "pax"])),
                   ostyle=draw(st.integers(0, 3)), xattrfmt=draw(st.sampled_from(["schily", "libarchive"])),
                   pax_mtime=draw(st.integers(0, 4)) == 0)
        if f == "v7":
            enc["num"] = "octal"
            enc["longname"] = "gnu"
        tw = ["file"] * 5 + ["dir"] * 3 + ["slink"] * 2 + ["fifo"]
        if f != "v7":
            tw += ["chr", "blk"]
        if [x for x in entries if x["type"] not in ("dir", "hlink") and canon(x["name"])]:
            tw += ["hlink", "hlink"]
        t = draw(st.sampled_from(tw))
        mt = draw(st.one_of(st.integers(0, 0xFFFFFFFF), st.sampled_from([-1, -(1 << 31), 1 << 32, 1 << 33, (1 << 33) + 5, 1 << 40, 8 ** 11 - 1, 8 ** 11])))
        if f == "v7" and not (0 <= mt < 8 ** 11):
            mt = 12345
        stored_name = prefix_style + path
        if draw(st.integers(0, 9)) == 0:
            stored_name = stored_name.replace(b"/", b"//", 1)
        e = dict(name=stored_name, type=t, mode=draw(treemodel.modes()), uid=draw(idst), gid=draw(idst), mtime=mt, xattrs={}, enc=enc)
        if f == "v7":
            e["uid"] &= 0o7777777
            e["gid"] &= 0o7777777
            e["uid"] = min(e["uid"], 2097151)
            e["gid"] = min(e["gid"], 2097151)
        if draw(st.integers(0, 7)) == 0 and (enc["pax_mtime"] or True) and f != "v7":
            e["mtime_frac"] = draw(st.sampled_from(["0", "5", "999999999", "123456789012"]))
        if t == "dir":
            dirs.append(path)
            if draw(st.booleans()):
                e["name"] += b"/"
        elif t == "file":
            rec = draw(treemodel.content_recipes(0))
            e["data"] = treemodel.content_bytes(rec, B)
            sizeclass = draw(st.integers(0, 7))
            if sizeclass == 0:
                e["data"] = (e["data"] * 50)[:draw(st.sampled_from([511, 512, 513, 1023, 1024, 1025]))]
            if allow_sparse and f != "v7" and draw(st.integers(0, 3)) == 0:
                segs = _segments(draw, len(e["data"]))
                # holes really are zero in the logical contents
                buf = bytearray(len(e["data"]))
                for o_, n_ in segs:
                    buf[o_:o_ + n_] = e["data"][o_:o_ + n_]
                e["data"] = bytes(buf)
                e["sparse"] = segs
                enc["sparsefmt"] = draw(st.sampled_from(["old", "0.0", "0.1", "1.0"]))
                if enc["sparsefmt"] != "old":
                    enc["num"] = "octal" if enc["num"] == "pax" else enc["num"]
            if draw(st.integers(0, 9)) == 0:
                enc["typeflag_nul"] = True
        elif t == "slink":
            e["linkname"] = draw(st.one_of(nm, st.sampled_from([b"/abs/target", b"../up", b"./rel//x/", b"t" * 99, b"t" * 100, b"t" * 101, b"t" * 300])))
        elif t == "hlink":
            cands = [x for x in entries if x["type"] not in ("dir", "hlink") and canon(x["name"])]
            tgt = draw(st.sampled_from(cands))
            e["linkname"] = draw(st.sampled_from([tgt["name"], canon(tgt["name"]), b"./" + canon(tgt["name"])]))
        elif t in ("chr", "blk"):
            e["major"] = draw(st.integers(0, 4095))
            e["minor"] = draw(st.integers(0, 0xFFFFF)) if f == "gnu" else draw(st.integers(0, 0o7777777 & 0xFFFFF))
        if allow_xattr and f != "v7" and t != "hlink" and draw(st.integers(0, 3)) == 0:
            e["xattrs"] = draw(treemodel.xattr_sets(max_keys=3, prefixes=(b"user.", b"trusted.", b"security.", b"system.")))
        used.add(path)
        entries.append(e)
    # sometimes move a hard link before its target
    if draw(st.integers(0, 3)) == 0:
        for i, e in enumerate(entries):
            if e["type"] == "hlink" and i > 0:
                entries.insert(draw(st.integers(0, i)), entries.pop(i))
                break
    return dict(entries=entries, end_marker=draw(st.sampled_from([True, True, True, False])), global_pax=draw(st.integers(0, 5)) == 0,
                trailing_pad=draw(st.sampled_from([0, 0, 1, 18])))


# ------------------------------------------------------------------ reference reader (Python tarfile) of an archive's bytes
def tarfile_listing(data):
    """Read an archive with Python's tarfile -> {canonical name: dict(type, mode, uid, gid, mtime, size, linkname, sha)}"""
    import tarfile
    res = {}
    tf = tarfile.open(fileobj=io.BytesIO(data), mode="r:", encoding="utf-8", errors="surrogateescape")
    for m in tf:
        name = os.fsencode(m.name)
        t = ("dir" if m.isdir() else "slink" if m.issym() else "hlink" if m.islnk() else "chr" if m.ischr() else "blk" if m.isblk()
             else "fifo" if m.isfifo() else "file")
        d = dict(type=t, mode=m.mode & 0o7777, uid=m.uid, gid=m.gid, mtime=int(m.mtime // 1), raw_name=name)
        if t in ("slink", "hlink"):
            d["linkname"] = os.fsencode(m.linkname)
        if t in ("chr", "blk"):
            d["major"], d["minor"] = m.devmajor, m.devminor
        if t == "file":
            f = tf.extractfile(m)
            b = f.read()
            d["size"] = len(b)
            d["sha"] = hashlib.sha256(b).hexdigest()
        # SCHILY.xattr.<key>=<value> records (values are raw bytes, tarfile hands them over surrogate-escaped)
        d["xattrs"] = {k[len("SCHILY.xattr."):].encode("utf-8", "surrogateescape"): v.encode("utf-8", "surrogateescape")
                       for k, v in (m.pax_headers or {}).items() if k.startswith("SCHILY.xattr.")}
        res[canon(name) if canon(name) is not None else name] = d
    return res
