"""Shared plumbing for all checks: case encoding, tool runner, Hypothesis sharding,
evidence, known findings, replay files."""
import os, sys, json, hashlib, subprocess, time, tempfile, shutil, signal, traceback, random
import multiprocessing as mp

VERIF = os.path.dirname(os.path.dirname(os.path.abspath(__file__)))
sys.path.insert(0, os.path.join(VERIF, "lib"))
import vbuild

NCPU = os.cpu_count() or 4


# ---------------------------------------------------------------- JSON with bytes
class _Enc(json.JSONEncoder):
    def default(self, o):
        if isinstance(o, (bytes, bytearray)):
            return {"__b": bytes(o).hex()}
        if isinstance(o, (set, frozenset)):
            return sorted(o)
        if isinstance(o, tuple):
            return list(o)
        return repr(o)


def _prep(o):
    if isinstance(o, (bytes, bytearray)):
        return {"__b": bytes(o).hex()}
    if isinstance(o, dict):
        return {(k if isinstance(k, str) else ("__kb:" + k.hex() if isinstance(k, bytes) else str(k))): _prep(v) for k, v in o.items()}
    if isinstance(o, (list, tuple)):
        return [_prep(x) for x in o]
    if isinstance(o, (set, frozenset)):
        return [_prep(x) for x in sorted(o)]
    return o


def _unprep(o):
    if isinstance(o, dict):
        if set(o.keys()) == {"__b"}:
            return bytes.fromhex(o["__b"])
        return {(bytes.fromhex(k[5:]) if isinstance(k, str) and k.startswith("__kb:") else k): _unprep(v) for k, v in o.items()}
    if isinstance(o, list):
        return [_unprep(x) for x in o]
    return o


def jdumps(o, **kw):
    return json.dumps(_prep(o), cls=_Enc, sort_keys=True, **kw)


def jloads(s):
    return _unprep(json.loads(s))


def case_hash(case):
    return hashlib.sha256(jdumps(case).encode()).hexdigest()[:16]


def brief(o, limit=600):
    """Short printable form of a case for evidence samples."""
    def conv(x, depth=0):
        if isinstance(x, (bytes, bytearray)):
            if len(x) > 48:
                return "<%d bytes sha=%s>" % (len(x), hashlib.sha256(x).hexdigest()[:8])
            return x.decode("latin-1")
        if isinstance(x, dict):
            return {(k.decode("latin-1") if isinstance(k, bytes) else str(k)): conv(v, depth + 1) for k, v in list(x.items())[:40]}
        if isinstance(x, (list, tuple)):
            r = [conv(v, depth + 1) for v in x[:40]]
            if len(x) > 40:
                r.append("... %d more" % (len(x) - 40))
            return r
        return x
    return conv(o)


# ---------------------------------------------------------------- violations
class Violation(Exception):
    def __init__(self, what, detail=None, sig=None):
        Exception.__init__(self, what)
        self.what = what
        self.detail = detail
        self.sig = sig  # short classification used for known-finding matching


class Inconclusive(Exception):
    pass


class CaseInfo:
    """What a check function returns for a case that held."""
    __slots__ = ("nontrivial", "classes", "note")

    def __init__(self, nontrivial=False, classes=(), note=None):
        self.nontrivial = nontrivial
        self.classes = list(classes)
        self.note = note


# ---------------------------------------------------------------- running tools
SAN_MARKERS = (b"ERROR: AddressSanitizer", b"ERROR: LeakSanitizer", b"runtime error:",
               b"AddressSanitizer:DEADLYSIGNAL", b"WARNING: ThreadSanitizer", b"ERROR: UndefinedBehaviorSanitizer")
# recoverable-UB diagnostics that no listed property forbids (see DESIGN 2.1)
UB_NOTE_KINDS = (b"shift", b"signed integer overflow", b"misaligned", b"null pointer passed as argument",
                 b"nonnull", b"applying zero offset to null pointer", b"applying non-zero offset")


class Run:
    __slots__ = ("rc", "out", "err", "timeout", "wall", "cmd")

    def sanitizer(self):
        """Return a description if the run shows a memory error / fatal UB / signal."""
        e = self.err or b""
        if self.timeout:
            return None
        if b"ERROR: AddressSanitizer" in e or b"AddressSanitizer:DEADLYSIGNAL" in e:
            return "asan: " + _first_line(e, b"AddressSanitizer")
        if b"WARNING: ThreadSanitizer" in e:
            return "tsan: " + _first_line(e, b"ThreadSanitizer")
        if self.rc == 98 or (b"runtime error:" in e and self.rc in (98, -6)):
            return "ubsan: " + _first_line(e, b"runtime error:")
        if self.rc is not None and self.rc < 0:
            return "signal %d" % (-self.rc)
        if self.rc == 97:
            return "asan exit: " + _first_line(e, b"Sanitizer")
        if self.rc == 134 or b"Assertion" in e and b"failed" in e:
            return "abort: " + _first_line(e, b"Assertion")
        return None

    def ub_notes(self):
        return [l.decode(errors="replace")[:200] for l in (self.err or b"").split(b"\n") if b"runtime error:" in l]


def _first_line(buf, marker):
    for l in buf.split(b"\n"):
        if marker in l:
            return l.decode(errors="replace")[:300]
    return ""


def run(cmd, stdin=None, timeout=20, env=None, cwd=None, preload=None, stdin_file=None, stdout_file=None):
    e = dict(os.environ)
    e.update(vbuild.ASAN_ENV)
    e["LC_ALL"] = "C"
    e.pop("SOURCE_DATE_EPOCH", None)
    if env:
        e.update(env)
    if preload:
        e["LD_PRELOAD"] = preload if isinstance(preload, str) else ":".join(preload)
    r = Run()
    r.cmd = cmd
    t0 = time.time()
    fin = None
    fout = None
    try:
        if stdin_file is not None:
            fin = open(stdin_file, "rb")
        if stdout_file is not None:
            fout = open(stdout_file, "wb")
        p = subprocess.Popen(cmd, stdin=(fin if fin else subprocess.PIPE if stdin is not None else subprocess.DEVNULL),
                             stdout=(fout if fout else subprocess.PIPE), stderr=subprocess.PIPE, env=e, cwd=cwd,
                             start_new_session=True)
        try:
            out, err = p.communicate(stdin if fin is None else None, timeout=timeout)
            r.timeout = False
        except subprocess.TimeoutExpired:
            try:
                os.killpg(p.pid, signal.SIGKILL)
            except OSError:
                pass
            out, err = p.communicate()
            r.timeout = True
        r.rc, r.out, r.err = p.returncode, out or b"", err or b""
    finally:
        if fin:
            fin.close()
        if fout:
            fout.close()
    r.wall = time.time() - t0
    return r


def tool(variant, name):
    return os.path.join(vbuild.BUILD, variant, name)


# ---------------------------------------------------------------- scratch
_SCRATCH_ROOT = None


def scratch_root():
    global _SCRATCH_ROOT
    if _SCRATCH_ROOT is None:
        base = os.environ.get("VERIF_SCRATCH") or os.environ.get("TMPDIR") or "/tmp"
        _SCRATCH_ROOT = tempfile.mkdtemp(prefix="verif-", dir=base)
    return _SCRATCH_ROOT


def cleanup_scratch():
    global _SCRATCH_ROOT
    if _SCRATCH_ROOT and os.path.isdir(_SCRATCH_ROOT):
        subprocess.run(["chmod", "-R", "u+rwx", _SCRATCH_ROOT], stderr=subprocess.DEVNULL)
        shutil.rmtree(_SCRATCH_ROOT, ignore_errors=True)
    _SCRATCH_ROOT = None


class Scratch:
    """A per-case scratch directory (wiped on exit)."""

    def __init__(self, tag="c"):
        self.tag = tag

    def __enter__(self):
        self.path = tempfile.mkdtemp(prefix=self.tag + "-", dir=scratch_root())
        return self.path

    def __exit__(self, *a):
        try:
            shutil.rmtree(self.path)
        except Exception:
            subprocess.run(["chmod", "-R", "u+rwx", self.path], stderr=subprocess.DEVNULL)
            shutil.rmtree(self.path, ignore_errors=True)


# ---------------------------------------------------------------- known findings
def load_known(prop):
    p = os.path.join(VERIF, "known_findings.json")
    if not os.path.exists(p):
        return []
    with open(p) as fh:
        data = json.load(fh)
    return [e for e in data.get("findings", []) if e.get("property") == prop]


def known_active(prop):
    """ids of 'known' (unrepaired) findings for this property"""
    return {e["id"]: e for e in load_known(prop) if e.get("kind") == "known"}


# ---------------------------------------------------------------- result aggregation
class Result:
    def __init__(self, prop, level="exploration"):
        self.prop = prop
        self.level = level
        self.evaluations = 0
        self.nontrivial = set()
        self.classes = {}
        self.samples = []
        self.violations = []  # list of (what, replay_path)
        self.known_hits = {}  # id -> what
        self.extra = {}
        self.rule = ""
        self.assumptions = []
        self.inconclusive = 0
        self.ub_notes = {}
        self.exhaustive = None
        self.nt_count = None  # exact count when the distinct non-trivial cases are counted, not hashed

    def add_class(self, c, n=1):
        self.classes[c] = self.classes.get(c, 0) + n

    def merge_shard(self, d):
        self.evaluations += d.get("evaluations", 0)
        self.nontrivial |= set(d.get("nontrivial", []))
        for k, v in d.get("classes", {}).items():
            self.add_class(k, v)
        for s in d.get("samples", []):
            if len(self.samples) < 6:
                self.samples.append(s)
        self.violations += d.get("violations", [])
        self.inconclusive += d.get("inconclusive", 0)
        for k, v in d.get("ub_notes", {}).items():
            self.ub_notes[k] = self.ub_notes.get(k, 0) + v
        for k, v in d.get("known_hits", {}).items():
            self.known_hits[k] = v
        for k, v in d.get("extra", {}).items():
            if isinstance(v, (int, float)) and isinstance(self.extra.get(k, 0), (int, float)):
                self.extra[k] = self.extra.get(k, 0) + v
            else:
                self.extra[k] = v


def evidence_dir():
    """evidence/ holds only runs against /repo; a run against another tree (VERIF_REPO, bin/seedtest) writes next to its build"""
    import vbuild
    if os.environ.get("VERIF_EVIDENCE_DIR"):
        return os.environ["VERIF_EVIDENCE_DIR"]       # exploratory runs (reduced scale) must not replace the committed evidence
    if os.path.abspath(vbuild.REPO) == "/repo":
        return os.path.join(VERIF, "evidence")
    return os.path.join(vbuild.BUILD, "evidence")


def write_evidence(res, tier, seed, wall):
    os.makedirs(evidence_dir(), exist_ok=True)
    cov = {
        "evaluations": int(res.evaluations),
        "distinct_nontrivial": int(res.nt_count if res.nt_count is not None else len(res.nontrivial)),
        "rule": res.rule,
        "samples": res.samples[:6] if res.samples else ["(no sample recorded)"],
        "classes": dict(sorted(res.classes.items())),
        "inconclusive": res.inconclusive,
    }
    if res.ub_notes:
        cov["ub_notes"] = res.ub_notes
    if res.exhaustive is not None:
        cov["exhaustive"] = bool(res.exhaustive)
    if res.known_hits:
        cov["known_findings_reproduced"] = res.known_hits
    cov.update(res.extra)
    ev = {
        "property_id": res.prop,
        "tier": tier,
        "seed": int(seed),
        "level": res.level,
        "coverage": cov,
        "assumptions": res.assumptions,
        "wall_s": round(wall, 2),
        "violations": len(res.violations),
    }
    p = os.path.join(evidence_dir(), res.prop + ".json")
    tmp = p + ".tmp"
    with open(tmp, "w") as fh:
        fh.write(jdumps(ev, indent=1))
    os.replace(tmp, p)
    return p


def save_replay(prop, case, what, detail=None, blobs=None):
    d = os.path.join(VERIF, "replays", prop)
    os.makedirs(d, exist_ok=True)
    hh = case_hash(case)
    p = os.path.join(d, hh + ".json")
    with open(p, "w") as fh:
        fh.write(jdumps({"property": prop, "what": what, "detail": detail, "case": case}, indent=1))
    for name, data in (blobs or {}).items():
        with open(os.path.join(d, hh + "." + name), "wb") as fh:
            fh.write(data)
    return p


def load_replay(path):
    with open(path) as fh:
        return jloads(fh.read())


# ---------------------------------------------------------------- Hypothesis shards
def _shard_worker(args):
    (modname, fname, strat_name, shard, seed, n_examples, tier, opts) = args
    import importlib
    sys.path.insert(0, os.path.join(VERIF, "checks"))
    mod = importlib.import_module(modname)
    return hyp_shard(getattr(mod, strat_name)(tier, opts), getattr(mod, fname), shard, seed, n_examples, tier, opts,
                     prop=opts.get("prop", modname.upper()))


def hyp_shard(strategy, check_case, shard, seed, n_examples, tier, opts, prop):
    """Run one Hypothesis shard; returns a mergeable dict."""
    from hypothesis import given, settings, seed as hseed, HealthCheck, Phase
    import hypothesis
    st = {"evaluations": 0, "nontrivial": set(), "classes": {}, "samples": [], "violations": [], "inconclusive": 0,
          "ub_notes": {}, "known_hits": {}, "extra": {}}
    state = {"last_fail": None, "first_fail_t": None, "fails": 0}
    shrink_budget = opts.get("shrink_budget", 90 if tier == "quick" else 300)
    known = known_active(prop)

    @hseed((seed * 1000003 + shard * 7919 + 17) & 0xFFFFFFFF)
    @settings(max_examples=n_examples, database=None, deadline=None, derandomize=False,
              report_multiple_bugs=False, suppress_health_check=list(HealthCheck),
              phases=[Phase.generate, Phase.shrink], print_blob=False)
    @given(strategy)
    def t(case):
        if state["first_fail_t"] is not None and time.time() - state["first_fail_t"] > shrink_budget:
            return  # stop shrinking: candidates "pass", Hypothesis settles on the best so far
        try:
            info = check_case(case, opts)
        except Inconclusive:
            st["inconclusive"] += 1
            return
        except Violation as v:
            if v.sig and v.sig in known:
                st["known_hits"][v.sig] = v.what
                st["classes"]["excluded_known"] = st["classes"].get("excluded_known", 0) + 1
                return
            state["last_fail"] = (case, v.what, v.detail, v.sig)
            state["fails"] += 1
            if state["first_fail_t"] is None:
                state["first_fail_t"] = time.time()
            raise
        st["evaluations"] += 1
        if info is None:
            return
        for c in info.classes:
            st["classes"][c] = st["classes"].get(c, 0) + 1
        if info.nontrivial:
            st["nontrivial"].add(case_hash(case))
            if len(st["samples"]) < 2 and shard < 3:
                st["samples"].append(brief(case))
        if info.note:
            for k in info.note:
                st["ub_notes"][k] = st["ub_notes"].get(k, 0) + 1

    try:
        t()
    except Violation:
        pass
    except BaseException as e:  # Flaky etc. after budget cut, or an internal error
        if state["last_fail"] is None:
            st["extra"]["shard_errors"] = st["extra"].get("shard_errors", 0) + 1
            st["extra"]["shard_error_text"] = (type(e).__name__ + ": " + str(e))[:2000] + "\n" + traceback.format_exc()[-2000:]
    if state["last_fail"] is not None:
        case, what, detail, sig = state["last_fail"]
        # confirm stand-alone (bypassing the library)
        confirmed = 0
        for _ in range(2):
            try:
                check_case(case, opts)
            except Violation:
                confirmed += 1
            except Inconclusive:
                pass
        p = save_replay(prop, case, what, {"detail": detail, "sig": sig, "confirmed_reruns": confirmed,
                                            "failures_seen_during_shrink": state["fails"]})
        if confirmed >= 1 or opts.get("flaky_is_violation", False):
            st["violations"].append((what, p))
        else:
            st["extra"]["unconfirmed_failures"] = st["extra"].get("unconfirmed_failures", 0) + 1
            st["extra"]["unconfirmed_last"] = what + " replay=" + p
    st["nontrivial"] = list(st["nontrivial"])
    return st


def run_shards(modname, fname, strat_name, n_total, seed, tier, opts=None, shards=None):
    opts = dict(opts or {})
    shards = shards or min(NCPU, 16)
    per = max(1, (n_total + shards - 1) // shards)
    args = [(modname, fname, strat_name, i, seed, per, tier, opts) for i in range(shards)]
    ctx = mp.get_context("fork")
    with ctx.Pool(shards) as pool:
        return pool.map(_shard_worker, args, chunksize=1)


def pmap(fn, items, procs=None):
    ctx = mp.get_context("fork")
    with ctx.Pool(procs or min(NCPU, 16)) as pool:
        return pool.map(fn, items, chunksize=1)


def run_corpus(prop, check_case, opts, res):
    """Replay the committed regression cases of a property (corpus/<ID>/*.json) first."""
    d = os.path.join(VERIF, "corpus", prop)
    if not os.path.isdir(d):
        return
    files = sorted(f for f in os.listdir(d) if f.endswith(".json"))
    items = [(prop, os.path.join(d, f)) for f in files]
    for f in files:
        p = os.path.join(d, f)
        case = load_replay(p)["case"]
        try:
            info = check_case(case, opts)
            res.evaluations += 1
            res.add_class("corpus_replayed")
            if info is not None and info.nontrivial:
                res.nontrivial.add(case_hash(case))
        except Violation as v:
            if v.sig and v.sig in known_active(prop):
                res.known_hits[v.sig] = v.what
                continue
            res.violations.append((v.what + " (regression case)", p))
        except Inconclusive:
            res.inconclusive += 1


def replay_case(prop, check_case, path, opts=None):
    """Re-run one saved case without the generator library (bin/check <ID> --replay PATH)."""
    d = load_replay(path)
    res = Result(prop)
    try:
        check_case(d["case"], dict(opts or {}, prop=prop))
    except Violation as v:
        if v.sig and v.sig in known_active(prop):
            print("KNOWN-FINDING: property=%s %s [%s]" % (prop, known_active(prop)[v.sig].get("what", "")[:200], v.sig))
        else:
            res.violations.append((v.what, path))
    except Inconclusive as e:
        print("inconclusive: %s" % e)
    return res


def symbolize(err):
    """Add file:line to unsymbolized sanitizer frames '(module+0xoff)' (runs with symbolize=0 keep the sanitizer
    runtime from talking to a symbolizer child process, whose pipe I/O a fault-injection shim would hit)."""
    import re
    frames = re.findall(rb"\((/[^()\s]+)\+0x([0-9a-f]+)\)", err)
    if not frames:
        return err
    out = [err, b"\n--- symbolized ---\n"]
    sym = shutil.which("llvm-symbolizer") or shutil.which("llvm-symbolizer-14")
    if not sym:
        return err
    for mod, off in frames[:24]:
        try:
            p = subprocess.run([sym, "--obj=" + mod.decode(), "0x" + off.decode()], stdout=subprocess.PIPE, stderr=subprocess.DEVNULL, timeout=20)
            lines = p.stdout.decode(errors="replace").strip().split("\n")
            out.append(("  %s %s\n" % (lines[0], lines[1] if len(lines) > 1 else "")).encode())
        except Exception:
            break
    return b"".join(out)
