"""C07 - untrusted tar streams / description files never crash or hang the packers.

(a) libFuzzer (ASan+UBSan) on src/fz_packer.c: tar stream -> tar iterator (codec auto-detection) -> fstree -> post-process with
    in-target oracles; pack file / sort file / xattr map file parsers.  Seeds: the repository's tar test data, generated
    archives of every dialect (also gzip/xz/zstd/bzip2 wrapped), valid text files.
(c) CLI level (ASan tools, time limit): every truncation offset of small valid archives, bit flips / zero runs / splices in
    headers, PAX records, sparse maps and numeric fields, ALL hard-link graphs over <=4 names (cycles, self links, chains,
    links to directories, dangling) as tar and as pack file, mutated pack / sort / xattr files.
Oracle (CLI): terminates; no sanitizer report or signal; exit 0 => output exists and passes the on-disk invariants (and, for
hard-link graphs, has the link groups the model predicts); exit != 0 => diagnostic on stderr and no output file.
"""
import os, glob, json, shutil, subprocess, itertools, time, hashlib
from hypothesis import strategies as st
import vcommon, vbuild, treemodel, tarimg, sqfsimg, packlib
from vcommon import Violation, Inconclusive, CaseInfo, Result, Scratch
import c05, c15

PROP = "C07"
NAMES = [b"a", b"b", b"c", b"d"]
CONFLICT_PATHS = [b"a", b"a/b", b"a/b/c", b"a/d", b"e"]


# ------------------------------------------------------------------ seeds for the fuzzer
VALID_PACK = b"""# comment
dir /dev 0755 0 0
nod /dev/console 0600 0 0 c 5 1
slink /lib 0777 0 0 /usr/lib
file "/opt/my app/\\"special\\"/data" 0600 0 0 in/x
link /init 0777 0 0 /sbin/init
file /sbin/init 0755 0 0 in/x
pipe /p 0644 1 2
sock /s 0644 1 2
glob /usr/lib 0755 0 0 -type d -name "*.so.*" -- .
"""
VALID_SORT = b"""# sort
-8000  [glob]          b/*
-5000  [glob_no_path,dont_compress]  usr/*
  -100000  [dont_compress,dont_fragment,nosparse]  a
1337  "b/d e"
7 "b/f\\"g"
0 [dont_deduplicate] z
"""
VALID_XATTR = b"""# file: dev/
security.selinux="system_u:object_r:device_t:s0"
user.beverage_preference=0xCAFECAFEDECAFBAD

# file: /dev/rfkill
trusted.b64=0sSGVsbG8gdGhlcmUgOi0pCg==
user.esc="a\\"b\\\\c\\012d"
"""


def sample_archives():
    """a few valid archives of every dialect (deterministic)"""
    out = []
    f = lambda name, data=b"data", **kw: dict(dict(name=name, type="file", mode=0o644, uid=1, gid=2, mtime=3, xattrs={}, data=data, enc=dict(fmt="ustar")), **kw)
    base = [dict(name=b"d/", type="dir", mode=0o755, uid=0, gid=0, mtime=1, xattrs={}, enc=dict(fmt="ustar")), f(b"d/f", b"x" * 600),
            dict(name=b"d/l", type="slink", mode=0o777, uid=0, gid=0, mtime=1, xattrs={}, linkname=b"f", enc=dict(fmt="ustar")),
            dict(name=b"d/h", type="hlink", mode=0o644, uid=0, gid=0, mtime=1, xattrs={}, linkname=b"d/f", enc=dict(fmt="ustar"))]
    out.append(tarimg.encode_archive(base))
    out.append(tarimg.encode_archive([dict(e, enc=dict(fmt="gnu", num="base256")) for e in base]))
    out.append(tarimg.encode_archive([dict(e, enc=dict(fmt="v7")) for e in base if e["type"] != "hlink"]))
    out.append(tarimg.encode_archive([f(b"n" * 150, b"long"), f(b"p/" + b"q" * 120, b"pfx", enc=dict(fmt="ustar", longname="prefix")),
                                      f(b"x" * 120, enc=dict(fmt="ustar", longname="pax", num="pax"), uid=3000000, mtime=1 << 34, xattrs={b"user.a": b"1", b"security.b": b"\0\xff"}),
                                      dict(name=b"sl", type="slink", mode=0o777, uid=0, gid=0, mtime=1, xattrs={}, linkname=b"t" * 200, enc=dict(fmt="gnu"))]))
    data = b"A" * 1000 + b"\0" * 3000 + b"B" * 500
    for sf in ("old", "0.0", "0.1", "1.0"):
        out.append(tarimg.encode_archive([f(b"sparse", data, sparse=[(0, 1000), (4000, 500), (4500, 0)], enc=dict(fmt="gnu" if sf == "old" else "ustar", sparsefmt=sf))]))
    out.append(tarimg.encode_archive([f(b"la", b"q", xattrs={b"user.x y": b"v"}, enc=dict(fmt="ustar", xattrfmt="libarchive"))], global_pax=True))
    return out


def write_fuzz_seeds(d):
    os.makedirs(d, exist_ok=True)
    n = 0

    def put(sel, buf, body):
        nonlocal n
        with open(os.path.join(d, "seed%04d" % n), "wb") as fh:
            fh.write(bytes([sel, buf]) + body)
        n += 1
    for f in sorted(glob.glob(os.path.join(vbuild.REPO, "lib/tar/test/data/**/*.tar"), recursive=True)):
        b = open(f, "rb").read()
        if len(b) <= 40000:
            put(0, 5, b)
    for i, a in enumerate(sample_archives()):
        put(0, i % 8, a)
        if i < 4:
            for codec in ("gzip", "xz", "zstd", "bzip2"):
                put(1, 4, c15.compress(codec, a, 3))
    # members with several extension records of mixed kinds (no archiver writes these; the reader has to cope)
    sa = sample_archives()
    for i in (0, 3, 4, 8):
        ng = len(_tar_groups(sa[i]))
        own = sum(1 for g in _tar_groups(sa[i]) if g[2] in (b"L", b"K", b"x", b"g"))
        for v in range(len(_meta_samples())):
            for fr in (0.0, 0.25, 0.5, 0.75, 0.99):
                # n even: between an extension record and its header; n odd: in front of group int(fr * ng)
                put(0, (i + v) % 8, apply_edits(sa[i], [("mrec", fr, own + v, 8)]))
                put(0, (i + v) % 8, apply_edits(sa[i], [("mrec", fr, own + v, 7)]))
    put(2, 5, VALID_PACK)
    put(2, 0, VALID_PACK)
    put(0x12, 3, VALID_PACK)
    put(3, 5, VALID_SORT)
    put(3, 1, VALID_SORT)
    put(4, 0, VALID_XATTR)
    for f in sorted(glob.glob(os.path.join(vcommon.VERIF, "corpus", PROP, "fz_*"))):
        shutil.copy(f, os.path.join(d, os.path.basename(f)))
    return n


# ------------------------------------------------------------------ CLI layer
def link_graph_cases():
    """all functions name -> {file, dir, missing} x link targets: every name is a file, a directory, absent, or a hard link to
    one of the names (incl. itself)"""
    kinds = ["file", "dir", "absent"] + [("link", t) for t in range(4)]
    # 3 names: 6^3 = 216 graphs; 4 names sampled by the strategy
    return kinds


@st.composite
def cli_cases(draw, tier="quick", only=None):
    what = only or draw(st.sampled_from(["trunc", "damage", "damage", "graph_tar", "graph_pack", "text_pack", "text_sort", "text_xattr", "paxrec", "paxrec",
                                          "conflict_tar", "conflict_pack"]))
    case = dict(what=what)
    if what == "paxrec":
        # one member whose PAX header is a generated sequence of records the reader knows (any order, repeats, odd values), or whose
        # old GNU sparse map is generated, followed by two ordinary members.  No 'size' record: it would legitimately move the next header.
        num = st.one_of(st.integers(0, 5000), st.sampled_from([0, 1, 511, 512, 513, 1024, 4096, 2 ** 31, 2 ** 32, 2 ** 63 - 1, 2 ** 64 - 1, 2 ** 64]))
        numv = num.map(lambda n: b"%d" % n)
        mapv = st.lists(num, min_size=0, max_size=8).map(lambda l: b",".join(b"%d" % x for x in l))
        odd = st.sampled_from([b"", b"-1", b"x", b"1,", b",", b"1,2,3", b"9" * 30, b"0x10", b" 1", b"1 ", b"1.5"])
        keys = {b"GNU.sparse.offset": numv, b"GNU.sparse.numbytes": numv, b"GNU.sparse.map": mapv, b"GNU.sparse.size": numv, b"GNU.sparse.realsize": numv,
                b"GNU.sparse.major": st.sampled_from([b"0", b"1", b"2"]), b"GNU.sparse.minor": st.sampled_from([b"0", b"1"]), b"GNU.sparse.numblocks": numv,
                b"GNU.sparse.name": st.sampled_from([b"realname", b"a/b", b"../x", b""]), b"path": st.sampled_from([b"member", b"d/m", b"./m/", b"x" * 300]),
                b"linkpath": st.sampled_from([b"t", b"t" * 300]), b"uid": numv, b"gid": numv, b"mtime": st.sampled_from([b"1", b"1.5", b"-3", b"99999999999999999999"]),
                b"SCHILY.xattr.user.a": st.sampled_from([b"v", b"", b"v" * 300]), b"LIBARCHIVE.xattr.user.b": st.sampled_from([b"dg==", b"%%%", b""]), b"comment": st.just(b"c")}
        sparse_heavy = draw(st.booleans())
        kl = ([k for k in keys if k.startswith(b"GNU.sparse")] + [b"GNU.sparse.offset", b"GNU.sparse.numbytes", b"GNU.sparse.map"] * 3) if sparse_heavy else list(keys)
        recs = []
        for _ in range(draw(st.integers(1, 9))):
            k = draw(st.sampled_from(kl))
            recs.append((k, draw(st.one_of(keys[k], keys[k], keys[k], odd))))
        case["recs"] = recs
        case["dsize"] = draw(st.sampled_from([0, 1, 512, 600, 1024, 3000]))
        case["typeflag"] = draw(st.sampled_from([b"0", b"0", b"0", b"S", b"2", b"5"]))
        # old GNU sparse header: four (offset, numbytes) pairs, optional extension blocks
        case["old"] = [(draw(num), draw(num)) for _ in range(draw(st.integers(0, 6)))]
        case["t2s_opts"] = draw(st.sampled_from([[], [], ["-x"], ["-s"]]))
        return case
    if what in ("trunc", "damage"):
        ar = draw(tarimg.archives(B=4096, max_entries=5))
        case["archive"] = ar
        case["codec"] = draw(st.sampled_from([None, None, None, "gzip", "xz", "zstd", "bzip2"]))
        # option subsets change which code sees the (damaged) entries: no xattr writer with -x, another root with -r, ...
        if draw(st.sampled_from([False, False, True])):
            # an explicit root entry that carries attributes of its own (xattrs, odd mode): handled by code of its own in tar2sqfs
            ar["entries"] = [e for e in ar["entries"] if tarimg.canon(e["name"]) not in (b"", None)]
            ar["entries"].insert(0, dict(name=draw(st.sampled_from([b"./", b".", b"/"])), type="dir", mode=0o1775, uid=3, gid=4, mtime=5,
                                        xattrs={b"user.root": b"attr"} if draw(st.booleans()) else {}, enc=dict(fmt="ustar", num="octal", ostyle=0, xattrfmt="schily")))
        case["t2s_opts"] = draw(st.lists(st.sampled_from(["-x", "-x", "-x", "-k", "-s", "-e", "-T", "-S", "-r:d", "-r:a", "-E:*a*", "-j:1"]), unique=True, max_size=4))
        case["t2s_opts"] = [y for x in case["t2s_opts"] for y in x.split(":")]
        if what == "damage":
            case["edits"] = draw(st.lists(st.tuples(st.sampled_from(["flip", "zero", "ff", "splice", "dup", "del", "num", "mrec", "mrec", "mswap"]), st.floats(0, 1), st.integers(0, 255),
                                                     st.integers(1, 64)), min_size=1, max_size=4))
        else:
            case["cut"] = draw(st.one_of(st.floats(0, 1), st.floats(0, 1), st.just(1.0)))      # 1.0: the complete archive
    elif what.startswith("conflict"):
        # entries over nested names in any order: a name may be asked for as a non-directory although the input also puts entries
        # below it (before or after).  No tree has both, so such an input must be refused; without a conflict whatever is accepted
        # must have every entry with its type (a directory that first came into being as a path component included).
        paths = draw(st.lists(st.sampled_from(CONFLICT_PATHS), min_size=2, max_size=4, unique=True))
        case["entries"] = [(p, draw(st.sampled_from(["dir", "dir", "file", "slink", "fifo", "chr"]))) for p in paths]
    elif what.startswith("graph"):
        nn = draw(st.sampled_from([2, 3, 3, 4]))
        kinds = ["file", "dir", "absent"] + [("link", t) for t in range(nn)]
        case["graph"] = [draw(st.sampled_from(kinds)) for _ in range(nn)]
        case["order"] = draw(st.permutations(list(range(nn))))
    else:
        base = {"text_pack": VALID_PACK, "text_sort": VALID_SORT, "text_xattr": VALID_XATTR}[what]
        case["base"] = base
        # the image is named relative to a working directory that is not the pack directory in half of the cases (clean-up happens
        # after the packer has been in the pack directory); 'noinput' = a well-formed line whose input file does not exist, which is
        # only noticed while packing
        case["relout"] = draw(st.booleans())
        case["edits"] = draw(st.lists(st.tuples(st.sampled_from(["del", "ins", "rep", "dupline", "trunc", "quote", "bs", "nul", "long", "noinput"]), st.floats(0, 1),
                                                 st.sampled_from(list(b"\"\\ \t\n#[],=0x-*/.\r\0") + [0xFF, ord("a"), ord("9")])), min_size=1, max_size=5))
    return case


def _tar_groups(b):
    """(offset, length, typeflag) of every header + payload in an uncompressed tar stream (best effort)"""
    out = []
    pos = 0
    while pos + 512 <= len(b):
        h = bytes(b[pos:pos + 512])
        if not any(h):
            break
        try:
            size = int(h[124:136].rstrip(b" \0") or b"0", 8)
        except ValueError:
            break
        ln = 512 + (size + 511) // 512 * 512
        out.append((pos, min(ln, len(b) - pos), h[156:157]))
        pos += ln
    return out


_META = None


def _meta_samples():
    """stand-alone extension records: GNU long name, GNU long link, PAX header without a path, PAX header with a path, global PAX"""
    global _META
    if _META is None:
        f = lambda name, **kw: dict(dict(name=name, type="file", mode=0o644, uid=1, gid=2, mtime=3, xattrs={}, data=b"", enc=dict(fmt="ustar")), **kw)
        ars = [tarimg.encode_archive([f(b"L" * 130, enc=dict(fmt="gnu", longname="gnu"))]),
               tarimg.encode_archive([dict(name=b"s", type="slink", mode=0o777, uid=0, gid=0, mtime=1, xattrs={}, linkname=b"K" * 130, enc=dict(fmt="gnu", longname="gnu"))]),
               tarimg.encode_archive([f(b"m", enc=dict(fmt="ustar", pax_mtime=True))]),
               tarimg.encode_archive([f(b"P" * 130, enc=dict(fmt="ustar", longname="pax"))]),
               tarimg.encode_archive([f(b"x", xattrs={b"user.a": b"b"})]),
               tarimg.encode_archive([f(b"g")], global_pax=True)]
        _META = []
        for a in ars:
            for off, ln, tf in _tar_groups(a):
                if tf in (b"L", b"K", b"x", b"g"):
                    _META.append(bytes(a[off:off + ln]))
    return _META


def apply_edits(data, edits):
    b = bytearray(data)
    for e in edits:
        kind, frac, val = e[0], e[1], e[2]
        n = e[3] if len(e) > 3 else 8
        if not b:
            break
        if kind == "mrec":
            # record level: an extension record (of this archive or a stock one) is inserted in front of some member's records -
            # members end up with two or more extension records of mixed kinds
            gr = _tar_groups(b)
            if not gr:
                continue
            own = [bytes(b[o:o + l]) for o, l, tf in gr if tf in (b"L", b"K", b"x", b"g")]
            pool = own + _meta_samples()
            src = pool[val % len(pool)]
            # half of the time between an extension record and the header it belongs to (the member then has two of them)
            mid = [gr[i][0] for i in range(1, len(gr)) if gr[i - 1][2] in (b"L", b"K", b"x") and gr[i][2] not in (b"L", b"K", b"x", b"g")]
            if mid and n % 2 == 0:
                dst = mid[int(frac * len(mid)) % len(mid)]
            else:
                dst = gr[min(len(gr) - 1, int(frac * len(gr)))][0]
            b[dst:dst] = src
            continue
        if kind == "mswap":
            gr = _tar_groups(b)
            if len(gr) < 2:
                continue
            i = min(len(gr) - 2, int(frac * (len(gr) - 1)))
            (o1, l1, _), (o2, l2, _) = gr[i], gr[i + 1]
            b[o1:o2 + l2] = bytes(b[o2:o2 + l2]) + bytes(b[o1:o1 + l1])
            continue
        pos = min(len(b) - 1, int(frac * len(b)))
        if kind == "flip":
            b[pos] ^= (val or 1)
        elif kind == "zero":
            b[pos:pos + n] = b"\0" * min(n, len(b) - pos)
        elif kind == "ff":
            b[pos:pos + n] = b"\xff" * min(n, len(b) - pos)
        elif kind == "splice":
            src = (pos * 7 + val) % len(b)
            b[pos:pos + n] = b[src:src + n]
        elif kind == "dup":
            b[pos:pos] = b[pos:pos + n]
        elif kind == "del":
            del b[pos:pos + n]
        elif kind == "num":
            # hit a numeric header field of the tar header that contains pos
            h = (pos // 512) * 512
            for off, w in ((100, 8), (108, 8), (116, 8), (124, 12), (136, 12), (148, 8))[val % 6:val % 6 + 1]:
                if h + off + w <= len(b):
                    b[h + off:h + off + w] = [b"7" * w, b"\xff" * w, b"\x80" + b"\xff" * (w - 1), b" " * w, b"9" * w, b"-1".ljust(w, b"\0")][n % 6]
        elif kind == "ins":
            b[pos:pos] = bytes([val])
        elif kind == "rep":
            b[pos] = val
        elif kind == "dupline":
            s = bytes(b).rfind(b"\n", 0, pos) + 1
            e_ = bytes(b).find(b"\n", pos)
            e_ = len(b) if e_ < 0 else e_ + 1
            b[e_:e_] = b[s:e_]
        elif kind == "trunc":
            del b[pos:]
        elif kind == "quote":
            b[pos:pos] = b'"'
        elif kind == "bs":
            b[pos:pos] = b"\\"
        elif kind == "nul":
            b[pos:pos] = b"\0"
        elif kind == "noinput":
            e_ = bytes(b).find(b"\n", pos)
            e_ = len(b) if e_ < 0 else e_ + 1
            b[e_:e_] = b"file /zz-no-input-%d 0644 0 0 in/does-not-exist\n" % val
        elif kind == "long":
            b[pos:pos] = bytes([val or 65]) * 5000
    return bytes(b)


def judge(r, out, what, need_valid=True):
    if r.timeout:
        raise Violation("%s: the packer does not terminate" % what, None, sig="hang")
    san = r.sanitizer()
    if san:
        fr = [x.decode(errors="replace").strip() for x in r.err.split(b"\n") if b" #" in x and b"/repo/" in x][:4]
        raise Violation("%s: %s" % (what, san), " | ".join(fr) + "\n" + r.err.decode(errors="replace")[-1500:], sig="crash")
    if r.rc == 0:
        if not os.path.exists(out):
            raise Violation("%s: exit status 0 but no output file" % what, None, sig="no-output")
        data = open(out, "rb").read()
        try:
            img = sqfsimg.Image(data)
            for i in img.inodes.values():
                if i.type == sqfsimg.T_FILE and i.size < (1 << 26):
                    img.file_bytes(i)
            v = sqfsimg.validate(img)
        except sqfsimg.FormatError as e:
            raise Violation("%s: accepted (exit 0) but the image does not parse: %s" % (what, e), None, sig="bad-image")
        if v:
            raise Violation("%s: accepted (exit 0) but the image violates %s" % (what, "; ".join(v[:2])), None, sig="invalid-image")
        return img
    if r.rc != 1:
        raise Violation("%s: exit status %s" % (what, r.rc), r.err.decode(errors="replace")[-400:], sig="odd-status")
    if not r.err.strip():
        raise Violation("%s: refused without a diagnostic" % what, None, sig="no-diagnostic")
    if os.path.exists(out):
        raise Violation("%s: refused but the output file was left behind" % what, None, sig="output-left")
    return None


def graph_model(graph):
    """-> dict name index -> root index (file it resolves to) or None if the input must be refused"""
    res = {}
    for i, k in enumerate(graph):
        if not isinstance(k, tuple):
            continue
        seen = set()
        cur = i
        while isinstance(graph[cur], tuple):
            if cur in seen:
                return None
            seen.add(cur)
            cur = graph[cur][1]
        if graph[cur] != "file":
            return None
        res[i] = cur
    return res


def check_case(case, opts):
    what = case["what"]
    t2s = vcommon.tool("asan", "tar2sqfs")
    gen = vcommon.tool("asan", "gensquashfs")
    with Scratch("c07") as sc:
        out = os.path.join(sc, "out.sqfs")
        if what in ("trunc", "damage"):
            ar = case["archive"]
            try:
                plain = tarimg.encode_archive(ar["entries"], ar["end_marker"], ar["global_pax"], ar["trailing_pad"])
            except OverflowError:
                raise Inconclusive("generator")
            if what == "damage":
                # record level edits work on the tar stream itself, byte level ones on what goes over the wire
                plain = bytes(apply_edits(plain, [e for e in case["edits"] if e[0] in ("mrec", "mswap")]))
            wire = c15.compress(case["codec"], plain, 4) if case["codec"] else plain
            if what == "trunc":
                bad = wire[:int(case["cut"] * len(wire))]
                desc = "archive (%s) truncated at %d of %d bytes" % (case["codec"] or "plain", len(bad), len(wire))
            else:
                bad = apply_edits(wire, [e for e in case["edits"] if e[0] not in ("mrec", "mswap")])
                desc = "archive (%s) damaged by %s" % (case["codec"] or "plain", ",".join(e[0] for e in case["edits"]))
            r = vcommon.run([t2s, "-q", "-c", "gzip", "-b", "4096"] + list(case.get("t2s_opts") or []) + [out], stdin=bad, timeout=30)
            img = judge(r, out, "tar2sqfs on " + desc)
            return CaseInfo(len(bad) >= 512, [what, "codec_%s" % (case["codec"] or "none"), "rc_%d" % r.rc])
        if what == "paxrec":
            tf = case["typeflag"]
            payload = bytes((i * 7 + 13) % 251 + 1 for i in range(case["dsize"]))          # never a zero record
            body = tarimg._pax_records([tuple(x) for x in case["recs"]])
            hdr = bytearray(tarimg._header(b"member", 0o644, 1, 2, len(payload), 3, tf, b"lnk" if tf == b"2" else b"", "gnu" if tf == b"S" else "ustar"))
            ext = b""
            if tf == b"S":
                # old GNU sparse fields: 4 pairs at 386, isextended at 482, realsize at 483; extension blocks of 21 pairs
                old = [tuple(x) for x in case["old"]]
                def num12(n):
                    return (b"%011o" % n + b"\0") if n < 8 ** 11 else bytes([0x80]) + (n % (1 << 88)).to_bytes(11, "big")
                for i, (o_, n_) in enumerate(old[:4]):
                    hdr[386 + 24 * i:386 + 24 * i + 24] = num12(o_) + num12(n_)
                hdr[483:495] = num12(sum(n_ for _, n_ in old) % (1 << 60))
                rest = old[4:]
                if rest:
                    hdr[482] = 1
                    blk = bytearray(512)
                    for i, (o_, n_) in enumerate(rest[:21]):
                        blk[24 * i:24 * i + 24] = num12(o_) + num12(n_)
                    ext = bytes(blk)
                hdr[148:156] = b" " * 8
                hdr[148:156] = b"%06o\0 " % sum(hdr)
            after = [dict(name=b"zz-after%d" % i, type="file", mode=0o644, uid=0, gid=0, mtime=1, xattrs={}, data=b"after %d\n" % i * 40, enc=dict(fmt="ustar")) for i in (1, 2)]
            data = (tarimg._header(b"./PaxHeaders/member", 0o644, 0, 0, len(body), 0, b"x", b"", "ustar") + tarimg._pad(body) if case["recs"] and tf != b"S" else b"") \
                + bytes(hdr) + ext + tarimg._pad(payload) + tarimg.encode_archive(after)
            r = vcommon.run([t2s, "-q", "-c", "gzip", "-b", "4096"] + list(case.get("t2s_opts") or []) + [out], stdin=data, timeout=30)
            desc = "tar2sqfs on a member (type %s, %d data bytes) with %s" % (tf.decode(), len(payload), ("old GNU sparse map %r" % (case["old"],)) if tf == b"S" else
                                                                             "PAX records " + ", ".join("%s=%s" % (k.decode(), v[:24].decode("latin-1")) for k, v in case["recs"]))
            nums = [int(v) for k, v in case["recs"] if k.startswith(b"GNU.sparse") and v.isdigit()] + [int(x) for k, v in case["recs"] if k == b"GNU.sparse.map"
                                                                                                         for x in v.split(b",") if x.isdigit()]
            if tf == b"S":
                nums += [x for pr in case["old"] for x in pr]
            if r.timeout and any(x > 2 ** 31 for x in nums):
                raise Inconclusive("the member declares a size of %d bytes: time proportional to the declared size is not a hang" % max(nums))
            img = judge(r, out, desc)
            if img is not None:
                import hashlib
                t = img.tree()
                for i in (1, 2):
                    nm = b"zz-after%d" % i
                    if nm not in t or t[nm].get("type") != "file" or t[nm].get("sha") != hashlib.sha256(b"after %d\n" % i * 40).hexdigest():
                        raise Violation("%s: exit status 0, but the well-formed member %r that follows in the archive is missing from the image (or has other contents)"
                                        % (desc, nm.decode()), None, sig="later-member-lost")
            return CaseInfo(True, [what, "type_" + tf.decode(), "rc_%d" % r.rc] + (["sparse_records"] if any(k.startswith(b"GNU.sparse") for k, _ in case["recs"]) else []))
        if what.startswith("conflict"):
            ents = [(bytes(p) if not isinstance(p, bytes) else p, t) for p, t in case["entries"]]
            ents = [(p.encode("latin-1") if isinstance(p, str) else p, t) for p, t in ents]
            tmap = dict(ents)
            conflict = [p for p, t in ents if t != "dir" and any(q.startswith(p + b"/") for q, _ in ents)]
            if what == "conflict_tar":
                tents = []
                for p, t in ents:
                    e = dict(name=p + (b"/" if t == "dir" else b""), type=t, mode=0o755 if t == "dir" else 0o644, uid=1, gid=2, mtime=3, xattrs={}, enc=dict(fmt="ustar"))
                    if t == "file":
                        e["data"] = b"content of " + p
                    elif t == "slink":
                        e["linkname"] = b"target-of-" + p.replace(b"/", b"_")
                    elif t == "chr":
                        e["major"], e["minor"] = 1, 2
                    tents.append(e)
                try:
                    data = tarimg.encode_archive(tents)
                except (OverflowError, KeyError) as e:
                    raise Inconclusive("generator: %r" % e)
                r = vcommon.run([t2s, "-q", "-c", "gzip", out], stdin=data, timeout=30)
                desc = "tar2sqfs on entries %r" % (ents,)
            else:
                os.mkdir(os.path.join(sc, "in"))
                with open(os.path.join(sc, "in", "x"), "wb") as fh:
                    fh.write(b"x")
                lines = []
                for p, t in ents:
                    n = b"/" + p
                    lines.append({"dir": b"dir " + n + b" 0755 1 2", "file": b"file " + n + b" 0644 1 2 in/x", "slink": b"slink " + n + b" 0777 1 2 target-of-" + p.replace(b"/", b"_"),
                                  "fifo": b"pipe " + n + b" 0644 1 2", "chr": b"nod " + n + b" 0644 1 2 c 1 2"}[t])
                lf = os.path.join(sc, "list.txt")
                with open(lf, "wb") as fh:
                    fh.write(b"\n".join(lines) + b"\n")
                r = vcommon.run([gen, "-q", "-c", "gzip", "-F", lf, "-D", sc, out], timeout=30)
                desc = "gensquashfs on entries %r" % (ents,)
            img = judge(r, out, desc)
            if conflict and r.rc == 0:
                raise Violation("%s: accepted although %r is asked for as a %s and as the parent of other entries" % (desc, conflict[0], tmap[conflict[0]]), None, sig="conflict-accepted")
            if img is not None:
                t = img.tree()
                for p, ty in ents:
                    if p not in t or t[p]["type"] != ty:
                        raise Violation("%s: accepted, but the image has %s where the input asks for a %s named %r" % (
                            desc, ("a " + t[p]["type"]) if p in t else "nothing", ty, p), None, sig="entry-lost")
                    if ty == "slink" and t[p].get("target") != b"target-of-" + p.replace(b"/", b"_"):
                        raise Violation("%s: accepted, but the symlink %r points to %r" % (desc, p, t[p].get("target")), None, sig="entry-lost")
            promoted = any(ty == "dir" and any(q.startswith(p + b"/") and ents.index((q, tq)) < ents.index((p, ty)) for q, tq in ents) for p, ty in ents)
            return CaseInfo(bool(conflict) or promoted, [what, "conflicting" if conflict else ("implicit_then_explicit_dir" if promoted else "plain"), "rc_%d" % r.rc])
        if what.startswith("graph"):
            g = case["graph"]
            nn = len(g)
            model = graph_model(g)
            if what == "graph_tar":
                ents = []
                for i in case["order"]:
                    k = g[i]
                    name = NAMES[i]
                    if k == "file":
                        ents.append(dict(name=name, type="file", mode=0o644, uid=0, gid=0, mtime=0, xattrs={}, data=b"content of " + name, enc=dict(fmt="ustar")))
                    elif k == "dir":
                        ents.append(dict(name=name + b"/", type="dir", mode=0o755, uid=0, gid=0, mtime=0, xattrs={}, enc=dict(fmt="ustar")))
                    elif isinstance(k, tuple):
                        ents.append(dict(name=name, type="hlink", mode=0o644, uid=0, gid=0, mtime=0, xattrs={}, linkname=NAMES[k[1]], enc=dict(fmt="ustar")))
                data = tarimg.encode_archive(ents)
                r = vcommon.run([t2s, "-q", "-c", "gzip", out], stdin=data, timeout=30)
                desc = "tar2sqfs on hard-link graph %r" % (g,)
            else:
                lines = []
                os.mkdir(os.path.join(sc, "in"))
                with open(os.path.join(sc, "in", "x"), "wb") as fh:
                    fh.write(b"x")
                for i in case["order"]:
                    k = g[i]
                    name = b"/" + NAMES[i]
                    if k == "file":
                        lines.append(b"file " + name + b" 0644 0 0 in/x")
                    elif k == "dir":
                        lines.append(b"dir " + name + b" 0755 0 0")
                    elif isinstance(k, tuple):
                        lines.append(b"link " + name + b" 0 0 0 /" + NAMES[k[1]])
                lf = os.path.join(sc, "list.txt")
                with open(lf, "wb") as fh:
                    fh.write(b"\n".join(lines) + b"\n")
                r = vcommon.run([gen, "-q", "-c", "gzip", "-F", lf, "-D", sc, out], timeout=30)
                desc = "gensquashfs on hard-link graph %r" % (g,)
            img = judge(r, out, desc)
            if model is None and r.rc == 0:
                raise Violation("%s: a dangling / cyclic / directory hard link was accepted" % desc, None, sig="bad-link-accepted")
            if model is not None and r.rc != 0:
                raise Violation("%s: a resolvable hard-link graph was refused: %s" % (desc, r.err[-200:].decode(errors="replace")), None, sig="good-link-refused")
            if img is not None:
                t = img.tree()
                for i, root in model.items():
                    if t[NAMES[i]]["ino"] != t[NAMES[root]]["ino"]:
                        raise Violation("%s: %r is not a hard link of %r" % (desc, NAMES[i], NAMES[root]), None, sig="link-group")
            cyc = model is None
            return CaseInfo(any(isinstance(k, tuple) for k in g), [what, "refusable" if cyc else "resolvable", "rc_%d" % r.rc])
        # text files
        text = apply_edits(case["base"], case["edits"])
        os.mkdir(os.path.join(sc, "in"))
        for nme in ("x", "a", "z"):
            with open(os.path.join(sc, "in", nme), "wb") as fh:
                fh.write(b"file " + nme.encode())
        if what == "text_pack":
            lf = os.path.join(sc, "list.txt")
            with open(lf, "wb") as fh:
                fh.write(text)
            cmd = [gen, "-q", "-c", "gzip", "-F", lf, "-D", sc, out]
        else:
            lf = os.path.join(sc, "list.txt")
            with open(lf, "wb") as fh:
                fh.write(b"file /a 0644 0 0 in/a\nfile \"/b/d e\" 0644 0 0 in/x\nfile /usr/lib/l 0644 0 0 in/x\nfile /z 0644 0 0 in/z\ndir /dev 0755 0 0\nnod /dev/rfkill 0600 0 0 c 1 2\n")
            aux = os.path.join(sc, "aux.txt")
            with open(aux, "wb") as fh:
                fh.write(text)
            cmd = [gen, "-q", "-c", "gzip", "-F", lf, "-D", sc, "-S" if what == "text_sort" else "-A", aux, out]
        cwd = None
        if case.get("relout"):
            cwd = os.path.join(sc, "rundir")
            os.mkdir(cwd)
            out = os.path.join(cwd, "rel.sqfs")
            cmd[-1] = "rel.sqfs"
        r = vcommon.run(cmd, timeout=30, cwd=cwd)
        judge(r, out, "gensquashfs on a mutated %s file (%s)%s" % (what[5:], ",".join(e[0] for e in case["edits"]), ", image named relative to the working directory" if cwd else ""))
        return CaseInfo(True, [what, "rc_%d" % r.rc])


def exhaustive_truncation(args):
    """every truncation offset of one small archive; every offset must be handled cleanly"""
    idx, seed = args
    ars = sample_archives()
    a = ars[(idx + seed) % len(ars)]
    t2s = vcommon.tool("asan", "tar2sqfs")
    bad = []
    n = 0
    with Scratch("c07x") as sc:
        out = os.path.join(sc, "o.sqfs")
        step = 1 if len(a) <= 8192 else max(1, len(a) // 4000)
        for cut in range(0, len(a), step):
            r = vcommon.run([t2s, "-q", "-c", "gzip", out], stdin=a[:cut], timeout=30)
            n += 1
            try:
                judge(r, out, "tar2sqfs on a sample archive truncated at %d of %d" % (cut, len(a)))
            except Violation as v:
                bad.append((cut, v.what))
                if len(bad) >= 2:
                    break
            if os.path.exists(out):
                os.unlink(out)
    return idx, n, len(a), bad


T2S_OPTS = [[], ["-x"], ["-k"], ["-s"], ["-e"], ["-T"], ["-S"], ["-r", "d"], ["-r", "d", "-S"], ["-r", "nonexistent"], ["-E", "d/*"], ["-E", "*"],
            ["-x", "-k"], ["-x", "-r", "d"], ["-x", "-e", "-T"], ["-d", "uid=5,gid=6,mode=0700,mtime=7"], ["-x", "-d", "mode=0755"], ["-j", "1", "-Q", "1"]]


def option_matrix(args):
    """valid inputs x every option set: a well-formed archive / pack file must never crash a packer, whatever is switched on or off"""
    part, nparts = args
    t2s = vcommon.tool("asan", "tar2sqfs")
    gen = vcommon.tool("asan", "gensquashfs")
    f = lambda name, data=b"data", **kw: dict(dict(name=name, type="file", mode=0o644, uid=1, gid=2, mtime=3, xattrs={}, data=data, enc=dict(fmt="ustar", xattrfmt="schily")), **kw)
    rootx = lambda nm, xf: tarimg.encode_archive([dict(name=nm, type="dir", mode=0o1775, uid=3, gid=4, mtime=5, xattrs={b"user.root": b"r", b"security.x": b"\0\1"},
                                                          enc=dict(fmt="ustar", xattrfmt=xf)),
                                                     dict(name=b"d/", type="dir", mode=0o755, uid=0, gid=0, mtime=1, xattrs={b"user.d": b"1"}, enc=dict(fmt="ustar", xattrfmt=xf)),
                                                     f(b"d/f", b"x" * 700, xattrs={b"user.f": b"2"}),
                                                     dict(name=b"d/h", type="hlink", mode=0o644, uid=0, gid=0, mtime=1, xattrs={}, linkname=b"d/f", enc=dict(fmt="ustar"))])
    archives = sample_archives() + [rootx(b"./", "schily"), rootx(b".", "libarchive"), rootx(b"/", "schily"), rootx(b"d/", "schily")]
    jobs = [("t2s", ai, oi) for ai in range(len(archives)) for oi in range(len(T2S_OPTS))]
    packs = [VALID_PACK, b"dir /a 0755 0 0\nslink /a/l 0777 0 0 x\nnod /a/n 0600 0 0 c 1 2\npipe /p 0644 0 0\n", b"dir /only 0755 0 0\n", b""]
    auxs = [None, ("-S", VALID_SORT), ("-S", b""), ("-S", b"# nothing\n"), ("-A", VALID_XATTR), ("-A", b""), ("-S", b"0 [dont_compress] *\n")]
    jobs += [("gen", pi, ai) for pi in range(len(packs)) for ai in range(len(auxs))]
    bad = []
    n = 0
    with Scratch("c07m") as sc:
        out = os.path.join(sc, "o.sqfs")
        os.makedirs(os.path.join(sc, "in"), exist_ok=True)
        with open(os.path.join(sc, "in", "x"), "wb") as fh:
            fh.write(b"file contents")
        for k, (kind, a, b) in enumerate(jobs):
            if k % nparts != part:
                continue
            if kind == "t2s":
                r = vcommon.run([t2s, "-q", "-c", "gzip"] + T2S_OPTS[b] + [out], stdin=archives[a], timeout=30)
                what = "tar2sqfs %s on a well-formed archive (#%d)" % (" ".join(T2S_OPTS[b]) or "(no options)", a)
            else:
                lf = os.path.join(sc, "list.txt")
                with open(lf, "wb") as fh:
                    fh.write(packs[a])
                cmd = [gen, "-q", "-c", "gzip", "-F", lf, "-D", sc]
                if auxs[b]:
                    ax = os.path.join(sc, "aux.txt")
                    with open(ax, "wb") as fh:
                        fh.write(auxs[b][1])
                    cmd += [auxs[b][0], ax]
                r = vcommon.run(cmd + [out], timeout=30)
                what = "gensquashfs on pack file #%d with %s" % (a, "no extra file" if not auxs[b] else "%s file #%d" % (auxs[b][0], b))
            n += 1
            try:
                judge(r, out, what)
            except Violation as v:
                bad.append((dict(what="matrix", kind=kind, a=a, b=b), v.what))
                if len(bad) >= 2:
                    break
            if os.path.exists(out):
                os.unlink(out)
    return n, bad


def exhaustive_graphs(args):
    """all 6^3 = 216 hard-link graphs over three names (tar and pack form)"""
    form, part, nparts = args
    kinds = ["file", "dir", "absent"] + [("link", t) for t in range(3)]
    bad = []
    n = 0
    for gi, g in enumerate(itertools.product(kinds, repeat=3)):
        if gi % nparts != part:
            continue
        case = dict(what="graph_" + form, graph=list(g), order=[0, 1, 2])
        n += 1
        try:
            check_case(case, {})
        except Violation as v:
            bad.append((case, v.what))
            if len(bad) >= 2:
                break
        except Inconclusive:
            pass
    return form, n, bad


def strat(tier, opts):
    return cli_cases(tier)


def strat_pax(tier, opts):
    return cli_cases(tier, only="paxrec")


def main(tier, seed, scale=1.0):
    vbuild.build("asan")
    vbuild.build("plain")
    g = os.path.join(vbuild.REPO, "bin/gensquashfs/src") + "/"
    binp = vbuild.build_harness("fz_packer", "fuzz", ["src/fz_packer.c", g + "fstree_from_file.c", g + "glob.c", g + "sort_by_file.c", g + "filemap_xattr.c"],
                                extra_ld=["-fsanitize=fuzzer"], include_tool="gensquashfs")
    res = Result(PROP)
    opts = {"prop": PROP}
    secs = int((45 if tier == "quick" else 900) * scale)
    n = int((500 if tier == "quick" else 10000) * scale)
    import threading, multiprocessing as mp
    with Scratch("c07fz") as sc:
        corpus = os.path.join(sc, "corpus")
        nseeds = write_fuzz_seeds(corpus)
        hout = {}
        hth = threading.Thread(target=lambda: hout.setdefault("r", vcommon.run_shards("c07", "check_case", "strat", n, seed, tier, opts, 4)))
        hth.start()
        pth = threading.Thread(target=lambda: hout.setdefault("p", vcommon.run_shards("c07", "check_case", "strat_pax", n * 6, seed, tier, opts, 4)))
        pth.start()
        xout = {}

        def xrun():
            with mp.get_context("fork").Pool(4) as p:
                xout["t"] = p.map(exhaustive_truncation, [(i, seed) for i in range(2 if tier == "quick" else 8)], chunksize=1)
                xout["g"] = p.map(exhaustive_graphs, [(f, i, 2) for f in ("tar", "pack") for i in range(2)], chunksize=1)
                xout["m"] = p.map(option_matrix, [(i, 4) for i in range(4)], chunksize=1)
        xth = threading.Thread(target=xrun)
        xth.start()
        w1 = os.path.join(sc, "w1")
        os.makedirs(w1)
        env_extra = ["-max_len=65536"]
        os.environ["VERIF_FZ_KEEP_STDERR"] = ""
        os.environ.pop("VERIF_FZ_KEEP_STDERR")
        tot, arts = c05.run_fuzzer(binp, corpus, w1, secs, 8, seed, extra=())
        res.extra["fuzz"] = dict(seconds=secs, jobs=8, seeds=nseeds, **tot)
        res.evaluations += tot.get("execs", 0)
        for a in arts:
            base = os.path.basename(a)
            if base.startswith(("crash-", "timeout-", "leak-")):
                os.environ["VERIF_FZ_KEEP_STDERR"] = "1"
                why = c05.confirm_artifact(binp, a)
                os.environ.pop("VERIF_FZ_KEEP_STDERR", None)
                if why is None:
                    res.add_class("artifact_not_reproduced")
                    continue
                keep = os.path.join(vcommon.VERIF, "replays", PROP)
                os.makedirs(keep, exist_ok=True)
                dst = os.path.join(keep, base)
                shutil.copy(a, dst)
                res.violations.append(("fuzz artifact %s: %s" % (base.split("-")[0], why), dst))
            else:
                res.add_class("artifact_" + base.split("-")[0])
        res.nt_count = tot.get("first_ok", 0)
        hth.join()
        pth.join()
        xth.join()
        for d in hout["r"] + hout["p"]:
            res.merge_shard(d)
        res.nt_count += len(res.nontrivial)
        for idx, cnt, total, bad in xout.get("t", []):
            res.evaluations += cnt
            res.add_class("exhaustive_truncation_offsets", cnt)
            for cut, what in bad[:1]:
                case = dict(what="xtrunc", idx=idx, seed=seed, cut=cut)
                res.violations.append((what, vcommon.save_replay(PROP, case, what)))
        for cnt, bad in xout.get("m", []):
            res.evaluations += cnt
            res.add_class("option_matrix", cnt)
            for case, what in bad[:1]:
                res.violations.append((what, vcommon.save_replay(PROP, case, what)))
        for form, cnt, bad in xout.get("g", []):
            res.evaluations += cnt
            res.add_class("exhaustive_graphs_" + form, cnt)
            for case, what in bad[:1]:
                res.violations.append((what, vcommon.save_replay(PROP, case, what)))
    vcommon.run_corpus(PROP, check_case, opts, res)
    res.exhaustive = True
    res.extra["exhaustive_subspace"] = "all 216 hard-link graphs over three names (tar and pack-file form); every truncation offset of sample archives <= 8 KiB"
    res.rule = ("(a) libFuzzer over tar iterator + fstree + post-process and the pack/sort/xattr file parsers with in-target oracles (non-trivial = "
                "first header/line parsed: first_ok); (c) Hypothesis CLI cases: truncated and damaged archives of every dialect and codec, hard-link "
                "graphs over 2-4 names in tar and pack-file form, mutated pack/sort/xattr files; plus exhaustive sub-spaces; oracle = terminates, no "
                "sanitizer report, exit 0 => valid image (C03 invariants; predicted link groups), exit 1 => diagnostic and no output file")
    res.samples = ["tar: ustar archive with PAX path + SCHILY xattrs, truncated at byte 1337", "graph: a->b, b->c, c->b (cycle not containing the start)",
                   "pack file: 'file \"/opt/my app' (unterminated quote)", "sort file: '-5 [glob,' (unterminated flag list)"] + res.samples[:2]
    res.assumptions = ["fuzz campaigns are approximately reproducible; artifacts are re-run stand-alone"]
    res.extra["min_evaluations"] = 1000
    return res


def replay(path):
    vbuild.build("asan")
    if path.endswith(".json"):
        d = vcommon.load_replay(path)
        if d["case"].get("what") == "xtrunc":
            res = Result(PROP)
            idx, n, total, bad = exhaustive_truncation((d["case"]["idx"], d["case"]["seed"]))
            for cut, what in bad[:1]:
                res.violations.append((what, path))
            return res
        if d["case"].get("what") == "matrix":
            res = Result(PROP)
            for part in range(4):
                n, bad = option_matrix((part, 4))
                res.evaluations += n
                for case, what in bad:
                    if (case["kind"], case["a"], case["b"]) == (d["case"]["kind"], d["case"]["a"], d["case"]["b"]):
                        res.violations.append((what, path))
            return res
        return vcommon.replay_case(PROP, check_case, path)
    g = os.path.join(vbuild.REPO, "bin/gensquashfs/src") + "/"
    binp = vbuild.build_harness("fz_packer", "fuzz", ["src/fz_packer.c", g + "fstree_from_file.c", g + "glob.c", g + "sort_by_file.c", g + "filemap_xattr.c"],
                                extra_ld=["-fsanitize=fuzzer"], include_tool="gensquashfs")
    res = Result(PROP)
    os.environ["VERIF_FZ_KEEP_STDERR"] = "1"
    why = c05.confirm_artifact(binp, path)
    if why:
        res.violations.append((why, path))
    return res
