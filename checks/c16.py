"""C16 - 'rdsquashfs --describe' output is valid 'gensquashfs --pack-file' input that rebuilds the tree.

Source images are built WITHOUT the pack-file parser (gensquashfs --pack-dir on a materialised tree,
or tar2sqfs).  Then: rdsquashfs -d [-p R]  +  rdsquashfs -u / -p R  ->  gensquashfs -F listing;
parser(rebuilt) must equal parser(original) on paths, types, permission bits, owners, symlink targets,
device numbers and file contents.
"""
import shutil, os, hashlib
from hypothesis import strategies as st
import vcommon, vbuild, treemodel, packlib, sqfsimg
from vcommon import Violation, Inconclusive, CaseInfo, Result, Scratch

PROP = "C16"
# (everything isspace() knows - space, tab, CR, VT, FF - plus the characters of the quoting rules and of comments / globs / options)
QUOTE_BYTES = b" \t\"\\#'*-\r\x0b\x0c"


@st.composite
def hostile_names(draw):
    special = st.sampled_from(list(QUOTE_BYTES) + list(range(0x80, 0x100, 17)))
    plain = st.sampled_from(list(b"abcxyz019._"))
    pos = draw(st.integers(0, 2))
    body = draw(st.lists(st.one_of(plain, plain, special), min_size=1, max_size=10))
    sp = draw(st.lists(special, min_size=1, max_size=2))
    if pos == 0:
        b = sp + body
    elif pos == 1:
        b = body[:len(body) // 2] + sp + body[len(body) // 2:]
    else:
        b = body + sp
    return bytes(b)


@st.composite
def cases(draw, tier="quick"):
    # names that merely start with dots ('..data', '...', '.x') are ordinary names
    dotted = st.tuples(st.sampled_from([b"..", b"...", b".", b".. ", b"..\""]), st.sampled_from([b"data", b"", b"2024_01_01.conf", b".", b"a b"])).map(lambda t: t[0] + t[1])
    nm = st.one_of(hostile_names(), hostile_names(), dotted, treemodel.name_bytes(allow_newline=False, maxlen=255)).filter(
        lambda b: b not in (b".", b"..") and b"/" not in b and b"\n" not in b and b"\0" not in b)
    n = draw(st.integers(1, 10))
    nodes, dirs, used = [], [b""], set()
    for _ in range(n):
        parent = draw(st.sampled_from(dirs))
        name = draw(nm)
        path = parent + b"/" + name if parent else name
        if path in used or len(path) > 1500:
            continue
        t = draw(st.sampled_from(["file", "file", "file", "dir", "dir", "slink", "slink", "chr", "blk", "fifo", "sock"]))
        node = dict(path=path, type=t, mode=draw(treemodel.modes()), uid=draw(st.integers(0, 70000)), gid=draw(st.integers(0, 70000)),
                    mtime=0, xattrs={})
        if t == "dir":
            dirs.append(path)
        elif t == "file":
            node["content"] = draw(treemodel.content_recipes(0))
        elif t == "slink":
            node["target"] = draw(st.one_of(hostile_names(), st.lists(hostile_names(), min_size=2, max_size=3).map(b"/".join),
                                            st.sampled_from([b"/abs path/x", b"a b", b"tab\there", b"back\\slash", b"quo\"te", b"\\", b"\"", b" ", b"#c"])))
        elif t in ("chr", "blk"):
            node["major"], node["minor"] = draw(st.integers(0, 4095)), draw(st.integers(0, 0xFFFFF))
        used.add(path)
        nodes.append(node)
    root_style = draw(st.sampled_from(["abs", "abs_hostile", "rel", "rel_hostile", "rel_up", "none"]))   # rel_up: relative, climbing out through '..' 
    rootname = draw(hostile_names()) if "hostile" in root_style else b"unpacked"
    # the root directory is an entry like any other: its permission bits and owner belong to the tree
    root_attr = draw(st.sampled_from([None, None, (0o750, 1000, 2000), (0o1777, 0, 0), (0o755, 0, 5), (0o700, 70000, 70000), (0o2775, 3, 4)]))
    return dict(nodes=nodes, root_style=root_style, rootname=rootname, B=4096, comp=draw(st.sampled_from(["gzip", "zstd"])), root_attr=root_attr)


def has_quote_bytes(b):
    return any(c in QUOTE_BYTES for c in b)


def check_case(case, opts):
    nodes = case["nodes"]
    gen = vcommon.tool("asan", "gensquashfs")
    rd = vcommon.tool("asan", "rdsquashfs")
    with Scratch("c16") as sc:
        src = os.path.join(sc, "src")
        os.mkdir(src)
        try:
            treemodel.materialise_dir(nodes, src, case["B"], set_times=False)
        except OSError as e:
            raise Inconclusive("materialise: %s" % e)
        img1 = os.path.join(sc, "one.sqfs")
        ra = case.get("root_attr")
        # (with --pack-dir the root directory takes its attributes from --defaults)
        r = vcommon.run([gen] + (["-d", "mode=0%o,uid=%d,gid=%d" % tuple(ra)] if ra else []) + ["--pack-dir", src, "-c", case["comp"], "-b", str(case["B"]), "-q", img1], timeout=60)
        if r.rc != 0 or r.timeout or r.sanitizer():
            raise Inconclusive("source image could not be built (C01's business): %s" % r.err[-200:])
        t1 = sqfsimg.Image(open(img1, "rb").read()).tree()
        work = os.path.join(sc, "work")
        os.mkdir(work)
        style = case["root_style"]
        rn = os.fsdecode(case["rootname"])
        if style.startswith("abs"):
            R = os.path.join(work, rn)
            Rarg = R
        elif style == "rel_up":
            # a relative root that leaves the working directory through '..' and comes back: input locations are file system paths,
            # not names inside the image, and may contain '..'
            R = os.path.join(work, rn)
            Rarg = os.path.join("..", "work", rn)
        elif style.startswith("rel"):
            R = os.path.join(work, rn)
            Rarg = rn
        else:
            R = os.path.join(work, "unpacked")
            Rarg = "unpacked"
        # the listing must be printable for every valid image, whether or not the files can be unpacked on this host
        r0 = vcommon.run([rd, "-d", img1], cwd=work, timeout=60)
        if r0.sanitizer() or r0.timeout:
            raise Violation("rdsquashfs -d: %s" % (r0.sanitizer() or "timeout"), r0.err.decode(errors="replace")[-1000:], sig="sanitizer")
        if r0.rc != 0:
            raise Violation("rdsquashfs --describe failed on a valid image: %s" % r0.err[-300:].decode(errors="replace"), None, sig="describe-failed")
        # unpack the files
        ru = vcommon.run([rd, "-u", "/", "-p", Rarg if Rarg != rn or not rn.startswith("-") else "./" + rn, "-q", img1], cwd=work, timeout=60)
        if ru.sanitizer() or ru.timeout:
            raise Violation("rdsquashfs -u: %s" % (ru.sanitizer() or "timeout"), ru.err.decode(errors="replace")[-1000:], sig="sanitizer")
        if ru.rc != 0:
            raise Inconclusive("unpack failed: %s" % ru.err[-200:])
        if Rarg.startswith("-"):
            Rarg = "./" + Rarg
        dargs = ["-d"] + (["-p", Rarg] if style != "none" else [])
        rdsc = vcommon.run([rd] + dargs + [img1], cwd=work, timeout=60)
        if rdsc.sanitizer() or rdsc.timeout:
            raise Violation("rdsquashfs -d: %s" % (rdsc.sanitizer() or "timeout"), rdsc.err.decode(errors="replace")[-1000:], sig="sanitizer")
        if rdsc.rc != 0:
            raise Violation("rdsquashfs --describe failed on a valid image: %s" % rdsc.err[-300:].decode(errors="replace"), None, sig="describe-failed")
        listing = os.path.join(work, "listing.txt")
        with open(listing, "wb") as fh:
            fh.write(rdsc.out)
        img2 = os.path.join(sc, "two.sqfs")
        gargs = [gen, "-F", "listing.txt", "-c", case["comp"], "-b", str(case["B"]), "-q"]
        if style == "none":
            gargs += ["-D", "unpacked"]
        rg = vcommon.run(gargs + [img2], cwd=work, timeout=60)
        if rg.sanitizer() or rg.timeout:
            raise Violation("gensquashfs on describe output: %s" % (rg.sanitizer() or "timeout"), rg.err.decode(errors="replace")[-1000:], sig="sanitizer")
        if rg.rc != 0:
            raise Violation("gensquashfs rejects the listing printed by rdsquashfs --describe%s: %s" % (
                " -p" if style != "none" else "", rg.err[-300:].decode(errors="replace")), rdsc.out.decode(errors="replace")[:2000], sig="listing-rejected")
        try:
            t2 = sqfsimg.Image(open(img2, "rb").read()).tree()
        except sqfsimg.FormatError as e:
            raise Violation("rebuilt image does not parse: %s" % e, None, sig="unparsable")
        diffs = []
        for p in sorted(set(t1) | set(t2)):
            a, b = t1.get(p), t2.get(p)
            if a is None or b is None:
                diffs.append("%r %s" % (p, "missing in rebuilt image" if b is None else "only in rebuilt image"))
                continue
            for f in ("type", "mode", "uid", "gid", "target", "devno", "sha", "size"):
                if a.get(f) != b.get(f):
                    diffs.append("%r: %s %r, originally %r" % (p, f, b.get(f), a.get(f)))
        if diffs:
            raise Violation("image rebuilt from --describe output differs: " + "; ".join(diffs[:4]), rdsc.out.decode(errors="replace")[:2000], sig="rebuilt-differs")
        hostile = any(has_quote_bytes(n["path"]) or has_quote_bytes(n.get("target", b"")) for n in nodes) or "hostile" in style
        classes = ["style_" + style]
        for c, nm in ((b" ", "space"), (b"\t", "tab"), (b'"', "quote"), (b"\\", "backslash"), (b"#", "hash")):
            if any(c in n["path"] or c in n.get("target", b"") for n in nodes):
                classes.append("has_" + nm)
        return CaseInfo(hostile and len(nodes) >= 1, classes)


def strat(tier, opts):
    return cases(tier)


def boundary_case(which, special=b"zz\rtarget"):
    """A listing longer than the 128 KiB stream buffer of the pack file reader in which a quoted special byte (CR, quote, backslash,
    space) of a name falls exactly on / next to the buffer boundary.  The filler names are sized from a first describe run."""
    gen = vcommon.tool("asan", "gensquashfs")
    rd = vcommon.tool("asan", "rdsquashfs")
    base = dict(type="dir", mode=0o755, uid=0, gid=0, mtime=0, xattrs={})
    lens = [180] * 640

    def nodes_for(lens):
        return [dict(base, path=(b"f%04d" % i).ljust(n_, b"p")) for i, n_ in enumerate(lens)] + [dict(base, path=special, mode=0o750, uid=7, gid=8)]
    want = 131072 - 1 + which      # offset of the special byte in the listing
    with Scratch("c16b") as sc:
        for attempt in range(4):
            src = os.path.join(sc, "src%d" % attempt)
            os.mkdir(src)
            treemodel.materialise_dir(nodes_for(lens), src, 4096, set_times=False)
            img = os.path.join(sc, "b%d.sqfs" % attempt)
            r = vcommon.run([gen, "--pack-dir", src, "-c", "gzip", "-q", "-k", img], timeout=120)
            if r.rc != 0:
                raise Inconclusive("image build: %s" % r.err[-200:])
            d = vcommon.run([rd, "-d", img], timeout=60)
            if d.rc != 0:
                raise Violation("rdsquashfs --describe failed on a valid image: %s" % d.err[-200:].decode(errors="replace"), None, sig="describe-failed")
            k = next((i for i, c in enumerate(special) if c in QUOTE_BYTES), 0)
            at = d.out.find(special.replace(b"\\", b"\\\\").replace(b'"', b'\\"'))
            if at < 0:
                raise Inconclusive("special name not found in the listing")
            pos = at + k
            delta = want - pos
            if delta == 0:
                break
            # lengthen / shorten filler names (each stays within 100..250 bytes)
            i = 0
            while delta != 0 and i < len(lens):
                step = max(-(lens[i] - 100), min(250 - lens[i], delta))
                lens[i] += step
                delta -= step
                i += 1
            if delta > 0:
                lens += [180] * (delta // 194 + 1)
            shutil.rmtree(src, ignore_errors=True)
        else:
            raise Inconclusive("could not align the listing")
    case = dict(nodes=nodes_for(lens), root_style="none", rootname=b"unpacked", B=4096, comp="gzip")
    info = check_case(case, {"prop": PROP})
    return CaseInfo(True, ["listing_crosses_128k_special_at%+d" % which])


def main(tier, seed, scale=1.0):
    vbuild.build("asan")
    n = int((5000 if tier == "quick" else 80000) * scale)
    res = Result(PROP)
    vcommon.run_corpus(PROP, check_case, {"prop": PROP}, res)
    # directed: special bytes on the boundary of the reader's buffer
    for which, special in ((0, b"zz\rtarget"), (1, b"zz\rtarget"), (0, b"zz\"q"), (0, b"zz\\b"), (0, b"zz sp")) if scale >= 0.2 else ():
        try:
            ci = boundary_case(which, special)
            res.evaluations += 1
            res.nontrivial.add("boundary-%d-%s" % (which, special.hex()))
            for c in ci.classes:
                res.add_class(c)
        except Inconclusive:
            res.inconclusive += 1
        except Violation as v:
            res.violations.append(("listing of %d bytes with %r at offset 131071%+d: %s" % (131072, special, which, v.what),
                                   vcommon.save_replay(PROP, dict(boundary=True, which=which, special=special), v.what)))
    for d in vcommon.run_shards("c16", "check_case", "strat", n, seed, tier, {"prop": PROP}):
        res.merge_shard(d)
    res.rule = ("Hypothesis trees with names, symlink targets and unpack roots over all bytes except NUL, '/', newline, with space, tab, quote, "
                "backslash, '#', CR, leading '-' forced into first/middle/last position; all inode types; source image from --pack-dir (no "
                "pack-file parser involved); non-trivial = a name/target/location contains a quoting-relevant byte; oracle = describe -> "
                "unpack -> gensquashfs -F -> independent parser equality on paths, types, modes, owners, targets, device numbers, contents")
    res.assumptions = ["independent parser lib/sqfsimg.py", "source trees materialised as root on ext4"]
    res.extra["min_evaluations"] = n // 3
    return res


def replay(path):
    vbuild.build("asan")
    c = vcommon.load_replay(path)["case"]
    if isinstance(c, dict) and c.get("boundary"):
        res = Result(PROP)
        res.evaluations = 1
        try:
            boundary_case(c["which"], c["special"])
        except Violation as v:
            res.violations.append((v.what, path))
        except Inconclusive:
            pass
        return res
    return vcommon.replay_case(PROP, check_case, path)
