"""treemodel - file tree model, Hypothesis generators, materialisers and the reference
model E(T, K) of what gensquashfs must store (DESIGN Appendix A).

A tree is a list of nodes in creation order; node = dict:
  path   bytes, relative, no leading slash ("" never appears; the root is implicit)
  type   'dir' | 'file' | 'slink' | 'hlink' | 'chr' | 'blk' | 'fifo' | 'sock'
  mode uid gid mtime
  xattrs {key bytes: value bytes}
  content (file)  recipe, see content_bytes()
  target  (slink: bytes; hlink: path of the link target)
  major minor (chr/blk)
"""
import os, stat, hashlib, random, struct, base64, errno
from hypothesis import strategies as st

# ------------------------------------------------------------------ content recipes
def _rand_bytes(seed, n):
    """n pseudo-random bytes; prefix-stable (the first m bytes do not depend on n)"""
    if n <= 0:
        return b""
    out = []
    for i in range((n + 4095) // 4096):
        out.append(random.Random(seed * 7919 + i).randbytes(4096))
    return b"".join(out)[:n]


def _compressible(seed, n):
    r = random.Random(seed)
    words = [r.randbytes(r.randint(2, 9)) for _ in range(12)]
    out = bytearray()
    while len(out) < n:
        out += words[r.randrange(12)]
    return bytes(out[:n])


def recipe_size(rec, B):
    k = rec[0]
    if k == "lit":
        return len(rec[1])
    return max(0, rec[2] * B + rec[3])


def content_bytes(rec, B, resolve=None):
    """rec: ('lit', bytes) | (kind, seed, kblocks, delta, ...) with size = kblocks*B+delta."""
    k = rec[0]
    if k == "lit":
        return rec[1]
    seed, size = rec[1], max(0, rec[2] * B + rec[3])
    if k == "rand":
        return _rand_bytes(seed, size)
    if k == "text":
        return _compressible(seed, size)
    if k == "zero":
        return b"\0" * size
    if k == "rep":
        # one random block repeated: a file is a block-wise repetition / prefix of another one with the same seed
        x = _rand_bytes(seed + 5000, B)
        return (x * (size // B + 1))[:size]
    if k == "cat":
        # leading blocks from one stream, the tail (size % B) from another: files can share only a tail
        lead = rec[2] * B
        return (_rand_bytes(seed, lead) + _rand_bytes(rec[4], max(0, size - lead)))[:size]
    if k == "mix":
        # per block: zero / random / compressible according to pattern (cyclic)
        pat = rec[4] or [0]
        out = []
        i = 0
        pos = 0
        while pos < size:
            n = min(B, size - pos)
            p = pat[i % len(pat)]
            if p == 0:
                out.append(b"\0" * n)
            elif p == 1:
                out.append(_rand_bytes(seed * 1000 + i, n))
            elif p == 2:
                out.append(_compressible(seed * 1000 + i, n))
            else:  # zero run inside a data block (not block aligned)
                b = bytearray(_rand_bytes(seed * 1000 + i, n))
                b[n // 4: n // 2] = b"\0" * (n // 2 - n // 4)
                out.append(bytes(b))
            pos += n
            i += 1
        return b"".join(out)
    raise ValueError(k)


# ------------------------------------------------------------------ generators
_COMMON = b"abcdefghijklmnopqrstuvwxyzABCXYZ0123456789._-"
_SPECIAL = b" \t\"\\#*?[]'-=,;:!$&()<>|~`{}^%@+"


def name_bytes(allow_newline=False, maxlen=255, allow_cr=True):
    extra = b"\n" if allow_newline else b""
    if allow_cr:
        extra += b"\r"
    alpha = st.one_of(
        st.sampled_from(list(_COMMON)),
        st.sampled_from(list(_COMMON)),
        st.sampled_from(list(_SPECIAL + extra)),
        st.integers(0x80, 0xFF),
        st.sampled_from([1, 0x1B, 0x7F]),
    )
    short = st.lists(alpha, min_size=1, max_size=12).map(bytes)
    mid = st.lists(alpha, min_size=13, max_size=60).map(bytes)
    longs = st.sampled_from([n for n in (100, 101, 155, 156, 254, 255, 256) if n <= maxlen]).flatmap(
        lambda n: st.tuples(st.integers(0, 255), st.just(n)).map(lambda t: (b"L%02x" % t[0]).ljust(t[1], b"x")))
    utf8 = st.sampled_from(["é", "日本", "ß-x", "naïve", "‮"]).map(lambda s: s.encode())
    names = st.one_of(short, short, short, short, mid, utf8, longs) if maxlen >= 100 else st.one_of(short, short, mid.map(lambda b: b[:maxlen]), utf8)
    return names.filter(lambda b: b not in (b".", b"..") and b"/" not in b and b"\0" not in b and 0 < len(b) <= maxlen)


def modes():
    return st.one_of(st.sampled_from([0o644, 0o755, 0o600, 0o777, 0o000, 0o4755, 0o2755, 0o1777, 0o7777, 0o444]),
                     st.integers(0, 0o7777))


def ids(pool=None):
    base = st.one_of(st.sampled_from([0, 1, 1000, 65534, 65535, 65536, 0x7FFFFFFF, 0xFFFFFFFE, 0xFFFFFFFF]),
                     st.integers(0, 0xFFFFFFFF), st.integers(0, 70000))
    return base


def mtimes():
    return st.one_of(st.sampled_from([0, 1, 0x7FFFFFFF, 0x80000000, 0xFFFFFFFF, 1234567890]), st.integers(0, 0xFFFFFFFF))


def xattr_sets(max_keys=4, prefixes=(b"user.", b"trusted.", b"security."), allow_empty=False):
    key = st.tuples(st.sampled_from(list(prefixes)),
                    st.lists(st.sampled_from(list(b"abcXYZ09._-")), min_size=1, max_size=10).map(bytes)).map(lambda t: t[0] + t[1])
    val = st.one_of(
        st.binary(min_size=1, max_size=24),
        st.sampled_from([b"v", b"shared-long-value-" * 8, b"\0", b"\xff" * 40, b"a b\"c\\d", b"0x1234", b"0sQUJD", b"x" * 300]),
        # lengths around the points where a PAX record length gains a digit (100, 1000) and around 8 / 256 byte limits
        st.tuples(st.one_of(st.integers(55, 100), st.integers(940, 1000), st.sampled_from([7, 8, 9, 255, 256, 257])), st.integers(33, 126)).map(lambda t: bytes([t[1]]) * t[0]),
    )
    if allow_empty:
        # an attribute may exist with an empty value (a marker)
        val = st.one_of(val, val, val, st.just(b""))
    return st.dictionaries(key, val, max_size=max_keys)


def content_recipes(nfiles_so_far):
    small = st.binary(max_size=40).map(lambda b: ("lit", b))
    delta = st.sampled_from([-1, 0, 1])
    kb = st.sampled_from([0, 1, 1, 1, 2, 2, 3])
    kinds = st.sampled_from(["rand", "text", "zero", "mix", "cat", "rep"])
    seeds = st.integers(0, 6)   # few seeds: equal seeds give shared leading blocks / duplicate files / shared tails
    sized = st.tuples(kinds, seeds, kb, st.one_of(delta, delta, st.integers(2, 4000)),
                      st.lists(st.integers(0, 3), min_size=1, max_size=4), st.integers(0, 3)).map(list).map(
        lambda l: tuple(l[:4]) + ((l[4],) if l[0] == "mix" else (l[5],) if l[0] == "cat" else ()))
    # files that begin with a hole, or have one between data blocks (the block writer learns about a new file from its first block)
    holes = st.tuples(seeds, st.sampled_from([2, 2, 3, 4]), st.one_of(delta, st.integers(2, 4000)),
                      st.sampled_from([[0, 1], [0, 2], [0, 0, 1], [1, 0, 1], [0, 3], [0, 1, 0]])).map(lambda t: ("mix", t[0], t[1], t[2], t[3]))
    return st.one_of(small, small, sized, sized, sized, holes)


@st.composite
def trees(draw, max_nodes=18, mode="dir", want_xattrs=True, want_special=True, want_hlinks=True, name_max=255,
          allow_newline=None, min_nodes=0, id_pool=None, file_bias=False):
    """Generate a tree (list of nodes).  mode: 'dir' (materialised on disk, names <= 255, user.* xattrs only on
    files/dirs) or 'file' (pack file: no newline in names; names up to 256)."""
    if allow_newline is None:
        allow_newline = (mode == "dir")
    nm = name_bytes(allow_newline=allow_newline, maxlen=min(name_max, 255 if mode == "dir" else 256))
    n = draw(st.integers(min_nodes, max_nodes))
    nodes = []
    dirs = [b""]
    used = {b""}
    files = []
    # chown(2) treats 0xFFFFFFFF as "leave unchanged": not a value a real directory can carry
    idgen = ids().filter(lambda v: v != 0xFFFFFFFF) if mode == "dir" else ids()
    pool = id_pool or draw(st.lists(idgen, min_size=1, max_size=4))
    idst = st.sampled_from(pool)
    for _ in range(n):
        parent = draw(st.sampled_from(dirs))
        name = draw(nm)
        path = parent + b"/" + name if parent else name
        if path in used:
            continue
        if mode == "dir" and len(path) > 3000:
            continue
        tw = ["file"] * (8 if file_bias else 4) + ["dir"] * 3 + ["slink"] * 2
        if want_special:
            tw += ["chr", "blk", "fifo", "sock"]
        if want_hlinks and [x for x in nodes if x["type"] not in ("dir",)]:
            tw += ["hlink", "hlink"]
        t = draw(st.sampled_from(tw))
        node = dict(path=path, type=t, mode=draw(modes()), uid=draw(idst), gid=draw(idst), mtime=draw(mtimes()), xattrs={})
        if t == "dir":
            dirs.append(path)
        elif t == "file":
            prev = [x for x in nodes if x["type"] == "file" and x["content"][0] != "lit"]
            if prev and draw(st.integers(0, 5)) == 0:
                node["content"] = draw(st.sampled_from(prev))["content"]   # exact duplicate of an earlier file
            elif draw(st.integers(0, 7)) == 0:
                # periodic data, longer than / repeating an earlier periodic file: block runs that overlap themselves
                reps = [x["content"] for x in prev if x["content"][0] == "rep"]
                base = reps[-1] if reps else ("rep", draw(st.integers(0, 3)), 1, 0)
                node["content"] = ("rep", base[1], base[2] + draw(st.integers(0, 2)), draw(st.sampled_from([0, 0, 1, 100])))
            else:
                node["content"] = draw(content_recipes(len(files)))
            files.append(path)
        elif t == "slink":
            node["target"] = draw(st.one_of(nm, st.sampled_from([b"/", b"../x", b"a/b/c", b"/abs/path", b"x" * 300, b" sp ace ", b"q\"uo\\te"]),
                                            st.lists(nm, min_size=2, max_size=4).map(b"/".join)))
        elif t == "hlink":
            cands = [x["path"] for x in nodes if x["type"] != "dir"]
            node["target"] = draw(st.sampled_from(cands))
        elif t in ("chr", "blk"):
            node["major"] = draw(st.one_of(st.sampled_from([0, 1, 8, 255, 256, 4095]), st.integers(0, 4095)))
            node["minor"] = draw(st.one_of(st.sampled_from([0, 1, 255, 256, 0xFFFFF]), st.integers(0, 0xFFFFF)))
        if want_xattrs and t != "hlink" and draw(st.integers(0, 3)) == 0:
            pf = (b"user.", b"trusted.", b"security.")
            if mode == "dir" and t not in ("file", "dir"):
                pf = (b"trusted.", b"security.")  # the kernel refuses user.* on symlinks and special files
            node["xattrs"] = draw(xattr_sets(prefixes=pf, allow_empty=True))
        used.add(path)
        nodes.append(node)
    return nodes


# ------------------------------------------------------------------ helpers on trees
def resolve_hlink(nodes, path):
    """Follow hlink chains to the real node; returns node or None (dangling / cycle / dir)."""
    by = {n["path"]: n for n in nodes}
    seen = set()
    cur = by.get(path)
    while cur is not None and cur["type"] == "hlink":
        if cur["path"] in seen:
            return None
        seen.add(cur["path"])
        cur = by.get(cur["target"])
    return cur


def parents_of(path):
    parts = path.split(b"/")
    return [b"/".join(parts[:i]) for i in range(1, len(parts))]


# ------------------------------------------------------------------ materialise as a real directory
def probe_capabilities(scratch):
    """What this sandbox allows (root?, mknod, xattr name spaces)."""
    caps = {}
    p = os.path.join(scratch, "probe")
    open(p, "w").close()
    for k, key in (("user", "user.t"), ("trusted", "trusted.t"), ("security", "security.t")):
        try:
            os.setxattr(p, key, b"1")
            caps["xattr_" + k] = True
        except OSError:
            caps["xattr_" + k] = False
    try:
        os.mknod(os.path.join(scratch, "probe_dev"), stat.S_IFCHR | 0o600, os.makedev(1, 3))
        caps["mknod"] = True
        os.unlink(os.path.join(scratch, "probe_dev"))
    except OSError:
        caps["mknod"] = False
    try:
        os.chown(p, 12345, 54321)
        caps["chown"] = True
    except OSError:
        caps["chown"] = False
    os.unlink(p)
    return caps


def materialise_dir(nodes, root, B, set_times=True):
    """Create the tree under root (which must exist and be empty). Runs as root."""
    rootb = os.fsencode(root)
    post = []
    for n in nodes:
        p = rootb + b"/" + n["path"]
        t = n["type"]
        if t == "dir":
            os.mkdir(p, 0o700)
        elif t == "file":
            with open(p, "wb") as fh:
                fh.write(content_bytes(n["content"], B))
        elif t == "slink":
            os.symlink(n["target"], p)
        elif t == "hlink":
            os.link(rootb + b"/" + n["target"], p, follow_symlinks=False)
            continue
        elif t == "chr":
            os.mknod(p, stat.S_IFCHR | 0o600, os.makedev(n["major"], n["minor"]))
        elif t == "blk":
            os.mknod(p, stat.S_IFBLK | 0o600, os.makedev(n["major"], n["minor"]))
        elif t == "fifo":
            os.mkfifo(p, 0o600)
        elif t == "sock":
            os.mknod(p, stat.S_IFSOCK | 0o600)
        for k, v in n.get("xattrs", {}).items():
            os.setxattr(p, k, v, follow_symlinks=False)
        os.chown(p, n["uid"], n["gid"], follow_symlinks=False)
        post.append(n)
    # modes and times last (deepest first so that directory mtimes survive)
    for n in sorted(post, key=lambda n: -n["path"].count(b"/") * 10000 - len(n["path"])):
        p = rootb + b"/" + n["path"]
        if n["type"] != "slink":
            os.chmod(p, n["mode"])
        if set_times:
            os.utime(p, (n["mtime"], n["mtime"]), follow_symlinks=False)


# ------------------------------------------------------------------ pack file writer (documented quoting only)
def pf_quote(b, force=False):
    need = force or b == b"" or any(c in b for c in b" \t\r\v\f\"\\") or b.startswith(b"#")
    if not need:
        return b
    return b'"' + b.replace(b"\\", b"\\\\").replace(b'"', b'\\"') + b'"'


def packfile_lines(nodes, B, filedir, quote_all=False, loc_style=0, abs_paths=True, late_dirs=False):
    """Write input files below filedir and return the pack file text (bytes).
    Every file gets an explicit location unless loc_style == 1 and the path is usable as location."""
    lines = []
    late = []
    fileno = 0
    for n in nodes:
        t = n["type"]
        path = (b"/" if abs_paths else b"") + n["path"]
        q = lambda b: pf_quote(b, quote_all)
        head = b" ".join([q(path), b"%04o" % n["mode"], b"%d" % n["uid"], b"%d" % n["gid"]])
        if t == "dir":
            if late_dirs:
                # declared after its contents: the directory first exists as an implicit path component with default
                # attributes and takes the attributes of its own line when that line finally comes
                late.append(b"dir " + head)
            else:
                lines.append(b"dir " + head)
        elif t == "file":
            data = content_bytes(n["content"], B)
            if loc_style == 1 and len(n["path"]) < 200 and all(len(c) <= 255 for c in n["path"].split(b"/")):
                # default location: the image path relative to the input directory
                fp = os.path.join(os.fsencode(filedir), n["path"])
                os.makedirs(os.path.dirname(fp), exist_ok=True)
                if not os.path.isdir(fp):
                    with open(fp, "wb") as fh:
                        fh.write(data)
                    lines.append(b"file " + head)
                    continue
            loc = b"in/f%d" % fileno
            if fileno % 3 == 1:
                loc = b"in/f %d\"q" % fileno  # needs quoting
            fileno += 1
            fp = os.path.join(os.fsencode(filedir), loc)
            os.makedirs(os.path.dirname(fp), exist_ok=True)
            with open(fp, "wb") as fh:
                fh.write(data)
            lines.append(b"file " + head + b" " + q(loc))
        elif t == "slink":
            lines.append(b"slink " + head + b" " + q(n["target"]))
        elif t == "hlink":
            lines.append(b"link " + b" ".join([q(path), b"0", b"0", b"0"]) + b" " + q(b"/" + n["target"]))
        elif t in ("chr", "blk"):
            lines.append(b"nod " + head + b" " + (b"c" if t == "chr" else b"b") + b" %d %d" % (n["major"], n["minor"]))
        elif t == "fifo":
            lines.append(b"pipe " + head)
        elif t == "sock":
            lines.append(b"sock " + head)
    return b"\n".join(lines + late[::-1]) + b"\n"


# ------------------------------------------------------------------ xattr map file writer (documented encodings)
def xattr_value_encode(v, style):
    if style == 1 or (style == 0 and any((c < 0x20 and c >= 0o100) or c >= 0x7F for c in v)):
        return b"0x" + v.hex().encode()
    if style == 2:
        return b"0s" + base64.b64encode(v)
    out = bytearray(b'"')
    for c in v:
        if c == 0x5C:
            out += b"\\\\"
        elif c == 0x22:
            out += b'\\"'
        elif c < 0x20:
            out += b"\\%03o" % c
        elif c >= 0x7F:
            return b"0x" + v.hex().encode()
        else:
            out.append(c)
    out += b'"'
    return bytes(out)


def xattr_file_text(entries, styles=None):
    """entries: list of (path bytes, {key: value}); returns getfattr --dump style text."""
    out = []
    i = 0
    for path, kv in entries:
        out.append(b"# file: " + (path if path and i % 2 else b"/" + path))
        for k, v in kv.items():
            stl = (styles[i % len(styles)] if styles else 0)
            if v == b"":
                stl = 0
            out.append(k + b"=" + xattr_value_encode(v, stl))
            i += 1
        out.append(b"")
    return b"\n".join(out) + b"\n"


# ------------------------------------------------------------------ the reference model E(T, K)
def default_mtime(opts):
    d = opts.get("defaults", {})
    if "mtime" in d:
        return d["mtime"]
    sde = opts.get("source_date_epoch")
    if sde is not None:
        return sde
    return 0


def expected_tree(nodes, opts, mode, B, xattr_file_entries=None, extra_implicit=()):
    """path -> expected dict(type, mode, uid, gid, mtime, target, devno, xattrs, sha, size, group)

    mode: 'dir' (--pack-dir scan) or 'file' (--pack-file listing).
    group: canonical representative path of the hard-link group (None for directories).
    Raises Unrepresentable(reason) if the format cannot store the input (the tool must refuse).
    """
    d = opts.get("defaults", {})
    dmt = default_mtime(opts)
    duid, dgid, dmode = d.get("uid", 0), d.get("gid", 0), d.get("mode", 0o755)
    fuid, fgid = opts.get("set_uid"), opts.get("set_gid")
    for v in (fuid, fgid):
        # owner ids are 32 bit numbers: anything else given on the command line cannot be stored and must not be stored as something else
        if v is not None and (not isinstance(v, int) or not 0 <= v <= 0xFFFFFFFF):
            raise Unrepresentable("--set-uid / --set-gid value %r" % (v,))
    if opts.get("all_root"):
        fuid, fgid = 0, 0
    exp = {}
    # root + implicit directories
    def implicit(path):
        return dict(type="dir", mode=dmode & 0o7777, uid=duid, gid=dgid, mtime=dmt, xattrs={}, group=None, implicit=True)
    exp[b""] = implicit(b"")
    by = {n["path"]: n for n in nodes}
    for n in nodes:
        for p in parents_of(n["path"]):
            if p not in exp and p not in by:
                exp[p] = implicit(p)
    for q in extra_implicit:
        for p in parents_of(q) + [q]:
            if p not in exp and p not in by:
                exp[p] = implicit(p)
    keep_time = mode == "dir" and opts.get("keep_time")
    for n in nodes:
        t = n["type"]
        if t == "hlink":
            continue
        e = dict(type=t, mode=n["mode"] & 0o7777, uid=n["uid"], gid=n["gid"], mtime=(n["mtime"] if keep_time else dmt),
                 xattrs={}, group=None)
        if t == "slink":
            e["mode"] = 0o777
            e["target"] = n["target"]
        elif t in ("chr", "blk"):
            if n["major"] > 0xFFF or n["minor"] > 0xFFFFF:
                raise Unrepresentable("device number %d:%d does not fit the 12+20 bit encoding" % (n["major"], n["minor"]))
            e["devno"] = (n["major"] << 8 & 0xFFF00) | (n["minor"] & 0xFF) | ((n["minor"] & 0xFFF00) << 12)
        elif t == "file":
            data = content_bytes(n["content"], B)
            e["size"] = len(data)
            e["sha"] = hashlib.sha256(data).hexdigest()
        if t != "dir":
            e["group"] = n["path"]
        if mode == "dir" and opts.get("keep_xattr"):
            e["xattrs"].update(n.get("xattrs", {}))
        exp[n["path"]] = e
    # hard links
    for n in nodes:
        if n["type"] != "hlink":
            continue
        tgt = resolve_hlink(nodes, n["path"])
        if tgt is None or tgt["type"] == "dir":
            raise Unrepresentable("hard link %r does not resolve to a non-directory" % n["path"])
        if mode == "dir" and opts.get("no_hard_links"):
            e = dict(exp[tgt["path"]])
            e["xattrs"] = dict(e["xattrs"])
            e["group"] = n["path"]
            exp[n["path"]] = e
        else:
            e = exp[tgt["path"]]
            exp[n["path"]] = e  # same object: same inode
    # xattr map file
    for path, kv in (xattr_file_entries or []):
        if path in exp:
            exp[path]["xattrs"] = dict(exp[path]["xattrs"])
            exp[path]["xattrs"].update(kv)
    # forced owners apply to ALL inodes (man page)
    for p, e in exp.items():
        if fuid is not None:
            e["uid"] = fuid & 0xFFFFFFFF
        if fgid is not None:
            e["gid"] = fgid & 0xFFFFFFFF
    # representability
    idset = set()
    for e in exp.values():
        idset.add(e["uid"])
        idset.add(e["gid"])
    if len(idset) > 65535:
        raise Unrepresentable("%d distinct owner ids" % len(idset))
    for e in exp.values():
        for k in e["xattrs"]:
            # the on-disk key record has a 16 bit length for the name behind its prefix
            if len(k.split(b".", 1)[-1]) > 0xFFFF:
                raise Unrepresentable("xattr name of %d bytes" % len(k))
    for p in exp:
        for c in p.split(b"/"):
            if len(c) > 256:
                raise Unrepresentable("name component of %d bytes" % len(c))
    return exp


class Unrepresentable(Exception):
    pass


def compare_trees(exp, got, check_mtime=True):
    """exp: expected_tree() result; got: sqfsimg.Image.tree() result. Returns list of differences."""
    diffs = []
    ep, gp = set(exp), set(got)
    for p in sorted(ep - gp)[:5]:
        diffs.append("missing in image: %r (%s)" % (p, exp[p]["type"]))
    for p in sorted(gp - ep)[:5]:
        diffs.append("unexpected in image: %r (%s)" % (p, got[p]["type"]))
    for p in sorted(ep & gp):
        e, g = exp[p], got[p]
        if e["type"] != g["type"]:
            diffs.append("%r: type %s, expected %s" % (p, g["type"], e["type"]))
            continue
        for f in ("mode", "uid", "gid") + (("mtime",) if check_mtime else ()):
            if e[f] != g[f]:
                diffs.append("%r: %s %s, expected %s" % (p, f, (oct(g[f]) if f == "mode" else g[f]), (oct(e[f]) if f == "mode" else e[f])))
        if e["type"] == "slink" and e["target"] != g["target"]:
            diffs.append("%r: target %r, expected %r" % (p, g["target"], e["target"]))
        if e["type"] in ("chr", "blk") and e["devno"] != g["devno"]:
            diffs.append("%r: devno %d, expected %d" % (p, g["devno"], e["devno"]))
        if e["type"] == "file" and (e["size"] != g["size"] or e["sha"] != g["sha"]):
            diffs.append("%r: content differs (size %d sha %s, expected size %d sha %s)" % (p, g["size"], g["sha"][:12], e["size"], e["sha"][:12]))
        if e["xattrs"] != g["xattrs"]:
            diffs.append("%r: xattrs %r, expected %r" % (p, sorted(g["xattrs"].items())[:4], sorted(e["xattrs"].items())[:4]))
    # hard-link partition
    eg, gg = {}, {}
    for p in ep & gp:
        if exp[p]["type"] != "dir":
            eg.setdefault(id(exp[p]), set()).add(p)
            gg.setdefault(got[p]["ino"], set()).add(p)
    es = set(frozenset(s) for s in eg.values())
    gs = set(frozenset(s) for s in gg.values())
    if es != gs:
        only_e = [sorted(s) for s in es - gs][:3]
        only_g = [sorted(s) for s in gs - es][:3]
        diffs.append("hard-link groups differ: expected %r, image has %r" % (only_e, only_g))
    for p in ep & gp:
        if exp[p]["type"] != "dir":
            want = len(eg[id(exp[p])])
            if got[p]["nlink"] != want:
                diffs.append("%r: nlink %d, expected %d" % (p, got[p]["nlink"], want))
    return diffs
