#!/bin/bash
# usage: run_seeds.sh [-s srcbase] [-p nameprefix] [-o resultname] CNN...
#   copies the agents' deliveries <srcbase>/CNN/_demo/<name>/ to /verif/seeded/CNN-<prefix><name>/ and runs bin/seedtest on each
# VERIF_ROOT: the /verif copy whose checks are run (default: the one this script lives in); results always go to /verif/seeded
root=${VERIF_ROOT:-$(dirname $(dirname $(readlink -f $0)))}
src=/tmp/agents; pre=""; out=result.json
while [ "${1#-}" != "$1" ]; do
  case "$1" in -s) src=$2;; -p) pre=$2;; -o) out=$2;; esac; shift 2
done
for id in "$@"; do
  for d in $src/$id/_demo/*/; do
    [ -f "$d/patch.diff" ] || continue
    name=$(basename $d)
    dest=/verif/seeded/$id-$pre$name
    if [ -f $dest/$out ]; then continue; fi
    mkdir -p $dest
    [ -f $dest/patch.diff ] || cp -a $d/. $dest/
    rm -rf $dest/__pycache__ $dest/*.sqfs $dest/work $dest/tmp* 2>/dev/null
    echo "=== $id $pre$name"
    extra=""
    [ "$out" != result.json ] && extra="--no-confirm"
    timeout 3000 $root/bin/seedtest $dest $id $extra > $dest/$out 2>$dest/seedtest.err
    tail -c 500 $dest/$out; echo
  done
done
