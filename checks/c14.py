"""C14 - a killed packer never leaves a file that reads as a complete image.

For generated inputs, gensquashfs / tar2sqfs run under src/io_shim.c in 'kill' mode: SIGKILL immediately before the
k-th write-like call (write, pwrite, ftruncate) on the output file, for EVERY k of the sequence (fresh output,
-f over the same image, -f over a valid image of another tree).  The file left behind is offered to rdsquashfs -l /, rdsquashfs -d and sqfs2tar
(asan) and to the independent parser: either every reader rejects it, or it reads exactly as the complete image.
"""
import struct, os, re, hashlib, shutil
from hypothesis import strategies as st
import vcommon, vbuild, scenarios, sqfsimg
from vcommon import Violation, Inconclusive, CaseInfo, Result, Scratch

PROP = "C14"


@st.composite
def cases(draw, tier="quick"):
    c = draw(scenarios.scen_cases(kinds=["gen_dir", "gen_file", "t2s"]))
    c["opts"]["j"] = draw(st.sampled_from([1, 2]))
    c["opts"]["e"] = draw(st.booleans())
    # False: fresh file; "same": -f over the finished image of the same input; "other": -f over a valid image of a different tree
    # (whatever of it survives the run must not make the new, unfinished file readable)
    c["over_existing"] = draw(st.sampled_from([False, "same", "other", "other"]))
    return c


def read_all(img, sc, tag):
    """-> dict reader -> (rc, digest of stdout)"""
    res = {}
    for name, cmd in (("list", [vcommon.tool("asan", "rdsquashfs"), "-l", "/", img]),
                      ("describe", [vcommon.tool("asan", "rdsquashfs"), "-d", img]),
                      ("sqfs2tar", [vcommon.tool("asan", "sqfs2tar"), img])):
        r = vcommon.run(cmd, timeout=30)
        if r.sanitizer():
            raise Violation("%s on the file left by a killed packer: %s" % (name, r.sanitizer()), r.err.decode(errors="replace")[-2000:], sig="reader-crash")
        if r.timeout:
            raise Violation("%s hangs on the file left by a killed packer" % name, None, sig="reader-hang")
        res[name] = (r.rc, hashlib.sha256(r.out).hexdigest(), r.err)
    return res


def check_case(case, opts):
    shim = opts["shim"]
    kind = case["kind"]
    with Scratch("c14") as sc:
        pre = os.path.join(sc, "prep")
        os.mkdir(pre)
        ctx = scenarios.prepare(case, pre, "plain")
        rd0 = os.path.join(sc, "ref")
        os.mkdir(rd0)
        log = os.path.join(sc, "count.log")
        target = os.path.join(rd0, "out.sqfs")
        ref = scenarios.run(ctx, rd0, env=dict(VERIF_IO_MODE="count", VERIF_IO_TARGET=target, VERIF_IO_LOG=log), preload=shim)
        if ref.rc != 0 or ref.timeout:
            raise Inconclusive("reference run failed")
        m = re.findall(r"target_writes=(\d+)", open(log).read())
        total = int(m[-1]) if m else 0
        if total < 3:
            raise Inconclusive("output file writes not seen")
        refimg = open(target, "rb").read()
        try:
            reftree = sqfsimg.Image(refimg).tree()
        except sqfsimg.FormatError as e:
            raise Inconclusive("reference image does not parse: %s" % e)
        refread = read_all(target, sc, "ref")
        if any(rc != 0 for rc, _, _ in refread.values()):
            raise Inconclusive("readers fail on the complete image")
        inside = 0
        accepted_complete = 0
        other = None
        if case.get("over_existing") == "other":
            od = os.path.join(sc, "other_in")
            os.makedirs(os.path.join(od, "old", "sub"))
            for i, n in enumerate(("old/a.bin", "old/sub/b.bin", "version")):
                with open(os.path.join(od, n), "wb") as fh:
                    fh.write(hashlib.sha256(b"%d" % i).digest() * (1 + 300 * i))
            other = os.path.join(sc, "other.sqfs")
            r0 = vcommon.run([vcommon.tool("plain", "gensquashfs"), "-q", "-D", od, "-b", "4096", other], timeout=60)
            if r0.rc != 0:
                raise Inconclusive("cannot build the pre-existing image")
        for k in range(1, total + 1):
            d = os.path.join(sc, "k%d" % k)
            os.mkdir(d)
            out = os.path.join(d, "out.sqfs")
            if case.get("over_existing"):
                shutil.copy(other if other else target, out)
                ctx2 = dict(ctx)
                if kind in ("gen_dir", "gen_file"):
                    ctx2["args"] = ["-f"] + ctx["args"]
                else:
                    ctx2["force"] = True
            else:
                ctx2 = ctx
            o = scenarios.run(ctx2, d, env=dict(VERIF_IO_MODE="kill", VERIF_IO_KILL_K=str(k), VERIF_IO_TARGET=out, VERIF_IO_LOG=os.path.join(d, "l")),
                              preload=shim, timeout=40)
            if o.rc != -9:
                shutil.rmtree(d, ignore_errors=True)
                if o.rc == 0:
                    continue   # fewer writes this time (should not happen); nothing was killed
                raise Inconclusive("kill not delivered (rc=%s)" % o.rc)
            inside += 1
            if not os.path.exists(out):
                shutil.rmtree(d, ignore_errors=True)
                continue
            left = open(out, "rb").read()
            got = read_all(out, sc, "k%d" % k)
            accept = [n for n, (rc, _, _) in got.items() if rc == 0]
            try:
                ptree = sqfsimg.Image(left).tree()
                pok = True
            except (sqfsimg.FormatError, Exception):
                ptree, pok = None, False
            if accept or pok:
                # someone reads it: then it must be the complete, correct image for everyone
                bad = []
                for n, (rc, dg, err) in got.items():
                    if rc != 0:
                        bad.append("%s rejects it" % n)
                    elif dg != refread[n][1]:
                        bad.append("%s reads something else than the complete image" % n)
                if not pok:
                    bad.append("independent parser rejects it")
                elif ptree != reftree:
                    bad.append("independent parser reads a different tree")
                # "complete, correct image": everything up to bytes_used of the finished image is there, byte for byte (only padding may be missing)
                used = struct.unpack_from("<Q", refimg, 40)[0]
                if len(left) < used or left != refimg[:len(left)]:
                    first = next((i for i in range(min(len(left), len(refimg))) if left[i] != refimg[i]), min(len(left), len(refimg)))
                    bad.append("its bytes are not those of the finished image (%d of %d used bytes present, first difference at byte %d%s)" % (
                        min(len(left), used), used, first, ", inside the super block" if first < 96 else ""))
                if bad:
                    raise Violation("%s killed before output write %d of %d (%s): the file left behind (%d of %d bytes) is accepted by %s but %s" % (
                        kind, k, total, ("over an existing image of %s" % ("another tree" if other else "the same input")) if case.get("over_existing") else "fresh file", len(left), len(refimg),
                        ", ".join(accept + (["parser"] if pok else [])), "; ".join(bad)), None, sig="partial-accepted")
                accepted_complete += 1
            else:
                for n, (rc, dg, err) in got.items():
                    if not err.strip():
                        raise Violation("%s rejects the partial file without a diagnostic" % n, None, sig="no-diagnostic")
            shutil.rmtree(d, ignore_errors=True)
        cl = ["kind_" + kind, ("over_existing_other" if other else "over_existing_same") if case.get("over_existing") else "fresh"]
        if accepted_complete:
            cl.append("complete_prefix_seen")
        return CaseInfo(inside >= 3, cl)


def strat(tier, opts):
    return cases(tier)


def main(tier, seed, scale=1.0):
    vbuild.build("asan")
    vbuild.build("plain")
    shim = vbuild.build_shim("io_shim")
    n = int((1500 if tier == "quick" else 20000) * scale)
    res = Result(PROP, level="fault_enumeration")
    opts = {"prop": PROP, "shim": shim, "shrink_budget": 60}
    vcommon.run_corpus(PROP, check_case, opts, res)
    for d in vcommon.run_shards("c14", "check_case", "strat", n, seed, tier, opts):
        res.merge_shard(d)
    res.exhaustive = True
    res.extra["exhaustive_subspace"] = "per generated input: every crash point between two consecutive output-file system calls (all prefixes of the write sequence)"
    res.rule = ("Hypothesis inputs (directory, pack file, tar stream; fragments, xattrs, export table, several ids) x SIGKILL before every k-th "
                "write/pwrite/ftruncate on the output file, fresh, -f over the finished image of the same input and -f over a valid image of a different tree; non-trivial = >=3 crash points strictly inside "
                "the sequence; oracle = rdsquashfs -l/-d, sqfs2tar and the independent parser either all reject the leftover file (with a "
                "diagnostic) or all read exactly the complete image")
    res.assumptions = ["models process death (the page cache keeps write order), not power loss with reordered blocks"]
    res.extra["min_evaluations"] = n // 3
    return res


def replay(path):
    vbuild.build("asan")
    vbuild.build("plain")
    shim = vbuild.build_shim("io_shim")
    return vcommon.replay_case(PROP, check_case, path, {"shim": shim})
