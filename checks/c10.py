"""C10 - reader answers depend only on image and query, never on earlier queries.

Hypothesis generates histories of reader API operations (get inode by reference, list a directory completely / partly and
abandon it, resolve a path, positional read, per-block access, fragment access, stream read, xattr set by index, xattr
descriptor + k key/value pairs, id lookup, inode number lookup, raw metadata seek+read) with valid arguments harvested by the
independent parser and invalid ones (random references, offsets, indices) over a pool of images: tool-written images of every
compressor (fragments, sparse and multi-block files, out-of-line xattr values, a 600 entry directory, export table),
Python-written images and field-damaged variants.  src/c10_hist.c executes the history on ONE long-lived reader set and after
every step executes the same operation on a freshly created reader set: (status, digest) must be equal.  On readable files
stream == positional read == concatenated blocks + fragment.
"""
import os, random, hashlib, shutil, struct
from hypothesis import strategies as st
import vcommon, vbuild, sqfsimg, sqfswrite, treemodel
from vcommon import Violation, Inconclusive, CaseInfo, Result, Scratch
import c05

PROP = "C10"
POOL = {}


def harness():
    return vbuild.build_harness("c10_hist", "asan", ["src/c10_hist.c"])


def build_pool(d):
    """-> list of dict(path, refs{dirs, files, all}, paths, nx, nid, ninodes, blocks[list of (blk rel, len)])"""
    os.makedirs(d, exist_ok=True)
    pool = []
    src = os.path.join(d, "src")
    os.makedirs(os.path.join(src, "many"))
    os.makedirs(os.path.join(src, "sub", "deep"))
    rnd = random.Random(5)
    for i in range(600):
        pth = os.path.join(src, "many", "e%04d%s" % (i, "x" * (i % 17)))
        if i % 5 == 4:
            # inodes of different sizes (symlinks, files with block lists): inodes run across metadata block boundaries
            os.symlink("t" * (1 + i % 23), pth)
            continue
        with open(pth, "wb") as fh:
            fh.write(rnd.randbytes(4096 * (1 + i % 3) + i) if i % 7 == 6 else (b"%d" % i if i % 3 else b""))
    with open(os.path.join(src, "big"), "wb") as fh:
        fh.write(rnd.randbytes(3 * 4096 + 777))
    with open(os.path.join(src, "sparse"), "wb") as fh:
        fh.write(b"\0" * 8192 + rnd.randbytes(4096) + b"\0" * 4096 + b"tail")
    with open(os.path.join(src, "text"), "wb") as fh:
        fh.write(b"hello world " * 2000)
    # files that end in zeros: a short all-zero last block / tail is stored as a hole
    with open(os.path.join(src, "zerotail"), "wb") as fh:
        fh.write(rnd.randbytes(4096) + b"\0" * 1000)
    with open(os.path.join(src, "allzero"), "wb") as fh:
        fh.write(b"\0" * 10000)
    with open(os.path.join(src, "sub", "small"), "wb") as fh:
        fh.write(b"small file")
    with open(os.path.join(src, "sub", "deep", "dup"), "wb") as fh:
        fh.write(b"hello world " * 2000)
    os.symlink("../big", os.path.join(src, "sub", "lnk"))
    os.link(os.path.join(src, "big"), os.path.join(src, "sub", "hl"))
    try:
        for p, kv in ((os.path.join(src, "big"), {"user.a": b"1", "user.long": b"L" * 200}), (os.path.join(src, "text"), {"user.long": b"L" * 200, "user.b": b"2"}),
                      (os.path.join(src, "sub"), {"user.d": b"dir"})):
            for k, v in kv.items():
                os.setxattr(p, k, v)
    except OSError:
        pass
    for comp in ("gzip", "xz", "lzma", "lz4", "zstd"):
        p = os.path.join(d, "tool_%s.sqfs" % comp)
        r = vcommon.run([vcommon.tool("plain", "gensquashfs"), "--pack-dir", src, "-c", comp, "-b", "4096", "-x", "-e", "-q", p], timeout=120)
        if r.rc != 0:
            continue
        clean = describe(p, damaged=False)
        pool.append(clean)
        # the same image with the compressed bytes of one file's first data block (and, second variant, of a fragment block) destroyed:
        # the decompressor fails in the middle of a history and is used again afterwards
        raw = open(p, "rb").read()
        im = sqfsimg.Image(raw)
        big = im.paths.get(b"big")
        for vi, (pos, ln) in enumerate([(big.blocks_start, 24)] + ([(im.frags[0][0], 24)] if im.frags else [])):
            b = bytearray(raw)
            b[pos + 2:pos + 2 + ln] = b"\xff" * ln
            p2 = os.path.join(d, "dmgblk_%s_%d.sqfs" % (comp, vi))
            with open(p2, "wb") as fh:
                fh.write(bytes(b))
            dd = dict(clean)
            dd["path"] = p2
            dd["damaged"] = True
            pool.append(dd)
    # an inode table of more than 64 KiB on disk: inode references of the directories need more than 32 bits
    src2 = os.path.join(d, "src2")
    os.makedirs(os.path.join(src2, "deep", "er"))
    for i in range(240):
        os.symlink("".join(rnd.choice("abcdefghijklmnopqrstuvwxyz0123456789") for _ in range(1000)), os.path.join(src2, "l%03d" % i))
    with open(os.path.join(src2, "deep", "er", "f"), "wb") as fh:
        fh.write(b"file behind many inodes")
    p = os.path.join(d, "tool_bigino.sqfs")
    r = vcommon.run([vcommon.tool("plain", "gensquashfs"), "--pack-dir", src2, "-c", "gzip", "-b", "4096", "-q", p], timeout=120)
    if r.rc == 0:
        pool.append(describe(p, damaged=False))
    # more than 512 distinct xattr sets: the descriptor table of the xattr reader has a second block
    src3 = os.path.join(d, "src3")
    os.makedirs(src3)
    with open(os.path.join(src3, "pack.txt"), "w") as fh:
        for i in range(700):
            fh.write("pipe /p%03d 0644 0 0\n" % i)
        fh.write("dir /d 0755 0 0\nfile /d/data 0644 0 0 xattr.txt\n")
    with open(os.path.join(src3, "xattr.txt"), "w") as fh:
        for i in range(700):
            fh.write("# file: p%03d\nuser.n=\"%d\"\nuser.shared=\"a value that is stored out of line because several sets use it\"\n\n" % (i, i))
    p = os.path.join(d, "tool_manyxattr.sqfs")
    r = vcommon.run([vcommon.tool("plain", "gensquashfs"), "-F", os.path.join(src3, "pack.txt"), "-A", os.path.join(src3, "xattr.txt"), "-D", src3, "-c", "gzip", "-b", "4096", "-q", p], timeout=120)
    if r.rc == 0:
        pool.append(describe(p, damaged=False))
    for dc in (False, True):
        img, lay = sqfswrite.build(sqfswrite.simple_tree(), data_comp=dc, pad=4096)
        p = os.path.join(d, "py_%d.sqfs" % dc)
        with open(p, "wb") as fh:
            fh.write(img)
        clean = describe(p, damaged=False)
        pool.append(clean)
        # field-damaged variants (the reference lists come from the clean image)
        rr = random.Random(11 + dc)
        for k in range(6):
            b = bytearray(img)
            fields = [f for f in lay if f[1] + f[2] <= len(b) and not f[0].startswith("sb.")]
            for _ in range(rr.randint(1, 2)):
                name, off, w = rr.choice(fields)
                cur = int.from_bytes(b[off:off + w], "little")
                v = rr.choice([0, 1, (1 << (8 * w)) - 1, cur + 1, cur // 2, cur ^ (1 << rr.randrange(8 * w))]) & ((1 << (8 * w)) - 1)
                b[off:off + w] = v.to_bytes(w, "little")
            p2 = os.path.join(d, "dmg_%d_%d.sqfs" % (dc, k))
            with open(p2, "wb") as fh:
                fh.write(bytes(b))
            dd = dict(clean)
            dd["path"] = p2
            dd["damaged"] = True
            pool.append(dd)
    # ---- directed images (Python writer)
    def put(name, img, clean=None, damaged=False):
        pth = os.path.join(d, name)
        with open(pth, "wb") as fh:
            fh.write(img)
        if clean is None:
            dd = describe(pth, damaged)
        else:
            dd = dict(clean, path=pth, damaged=True)
        pool.append(dd)
        return dd

    def patched(img, lay, field, value):
        b = bytearray(img)
        for name, off, w in lay:
            if name == field:
                b[off:off + w] = (value & ((1 << (8 * w)) - 1)).to_bytes(w, "little")
                return bytes(b)
        raise KeyError(field)
    # two files stored once (one location, one block list), the block size word of the second one altered: what the second file
    # reads as must not depend on whether the first was read before
    for dc in (False, True):
        body = (b"shared block " * 400)[:4096] + rnd.randbytes(4096) + b"tail of the shared file"
        a_ = dict(type="file", name=b"a_first", data=body, frag=True, id="A")
        b_ = dict(type="file", name=b"b_second", same_as="A", frag=True)
        root = dict(type="dir", name=b"", children=[a_, b_, dict(type="file", name=b"other", data=b"o" * 5000, frag=True)], mode=0o755)
        img, lay = sqfswrite.build(root, data_comp=dc, pad=4096)
        clean = put("py_shared_%d.sqfs" % dc, img)
        w0 = a_["_words"][0]
        for vi, w in enumerate([5000, 3840 | (1 << 24), (w0 & 0xFFFFFF) - 1 | (w0 & (1 << 24)), w0 ^ (1 << 24), 1, 4096]):
            put("dmgword_%d_%d.sqfs" % (dc, vi), patched(img, lay, "ino%d.file.blk0" % b_["_ino"], w), clean)
    # a tail whose fragment block cannot be loaded: entry beyond the image / index beyond the table
    f_ = dict(type="file", name=b"f_block_and_tail", data=rnd.randbytes(4096) + b"tail" * 25, frag=True)
    g_ = dict(type="file", name=b"g_tail_only", data=b"only a tail " * 8, frag=True)
    root = dict(type="dir", name=b"", children=[f_, g_], mode=0o755)
    img, lay = sqfswrite.build(root, data_comp=False, pad=4096)
    clean = put("py_frag.sqfs", img)
    put("dmgfrag_0.sqfs", patched(img, lay, "frag0.start", len(img) + 4096), clean)
    put("dmgfrag_1.sqfs", patched(img, lay, "ino%d.file.frag_idx" % f_["_ino"], 7), clean)
    put("dmgfrag_2.sqfs", patched(img, lay, "frag0.size", 60000), clean)
    # entry names with a NUL byte inside (nothing in the format forbids them): "n" must not resolve to the entry "n\0yyyy"
    kids = [dict(type="file", name=b"n\0" + b"y" * k, data=b"x", frag=True) for k in (1, 40, 300)] + [dict(type="dir", name=b"d\0" + b"z" * 60, children=[])]
    root = dict(type="dir", name=b"", children=[dict(type="dir", name=b"nul", children=kids), dict(type="file", name=b"plain", data=b"p", frag=True)], mode=0o755)
    img, lay = sqfswrite.build(root, data_comp=False, pad=4096)
    dd = put("py_nulname.sqfs", img)
    dd["damaged"] = True      # (names the library's own writer never produces: no strict layout checks)
    return pool


def describe(path, damaged):
    data = open(path, "rb").read()
    img = sqfsimg.Image(data)
    files = [i.ref for i in img.inodes.values() if i.type == sqfsimg.T_FILE]
    # the handful of files with an interesting layout (several blocks, holes, zero tails, fragments, duplicates) must not drown
    # among hundreds of tiny ones: they are listed thirty times
    special = [i.ref for p_, i in img.paths.items() if i.type == sqfsimg.T_FILE and not p_.startswith(b"many/") and not p_.startswith(b"p")]
    files = files + special * 30
    dirs = [i.ref for i in img.inodes.values() if i.type == sqfsimg.T_DIR]
    blocks = sorted(p - img.sb["inode_table"] for p in img.table_blocks["inode"])
    sizes = {i.ref: (i.size, len(i.block_sizes)) for i in img.inodes.values() if i.type == sqfsimg.T_FILE}
    dl = sorted((i for i in img.inodes.values() if i.type == sqfsimg.T_DIR), key=lambda i: -(i.size or 0))
    bigdirs = [i.ref for i in dl[:3]]
    return dict(path=path, files=files, dirs=dirs, bigdirs=bigdirs, allrefs=list(img.inodes), paths=[p for p in img.paths if p][:400], nx=len(img.xattr_ids) if img.xattr_hdr else 0,
                nid=len(img.ids), ninodes=len(img.inodes), blocks=blocks, sizes=sizes, B=img.B, damaged=damaged)


@st.composite
def cases(draw, tier="quick"):
    npool = 50
    pi = draw(st.integers(0, npool - 1))
    nops = draw(st.integers(3, 40))
    ops = []
    for _ in range(nops):
        kind = draw(st.sampled_from(["inode", "inode", "lsdir", "lsdir", "lspart", "resolve", "inum", "read", "read", "block", "frag", "stream", "cross", "xattr",
                                     "xdesc", "id", "mseek", "mseek", "root", "iprobe", "rawls", "rawls", "rawcont", "rawzip"]))
        ops.append((kind, draw(st.integers(0, 10 ** 6)), draw(st.integers(0, 10 ** 6)), draw(st.integers(0, 10 ** 6)), draw(st.integers(0, 9))))
    return dict(pool=pi, ops=ops)


def render(case, P):
    lines = []
    inval = 0
    # the last inode that starts in each metadata block: the one that may run over the end of its block
    last_in_block = {}
    for r in P["allrefs"]:
        if (r >> 16) not in last_in_block or r > last_in_block[r >> 16]:
            last_in_block[r >> 16] = r
    probe_blk = None
    for kind, a, b, c, inv in case["ops"]:
        bad = inv == 0   # 10%: invalid / out-of-range argument
        if bad:
            inval += 1
        allr, files, dirs = P["allrefs"], P["files"], P["dirs"]
        rnd_ref = ((a * 7919) % (1 << 20)) << 16 | (b % 8192)
        if kind == "iprobe":
            # a lookup that fails only because of its offset, directly followed by the inode at the end of the same block
            blk = P["blocks"][a % len(P["blocks"])]
            lines.append("inode %d" % ((blk << 16) | (8192 + b % 50000)))
            inval += 1
            if blk in last_in_block:
                lines.append("inode %d" % last_in_block[blk])
        elif kind == "root":
            lines.append("root")
        elif kind == "inode":
            if bad and c % 3 == 1:
                # a real metadata block, offset beyond its unpacked size: the lookup fails after the block was loaded
                probe_blk = P["blocks"][a % len(P["blocks"])]
                ref = (probe_blk << 16) | (8192 + b % 50000)
            elif not bad and probe_blk in last_in_block and c % 2 == 0:
                # right after such a failure: the inode at the end of that very block
                ref = last_in_block[probe_blk]
                probe_blk = None
            elif bad and c % 3 == 2:
                # a real metadata block, offset inside it but not at an inode
                ref = (P["blocks"][a % len(P["blocks"])] << 16) | (b % 8192)
            else:
                ref = rnd_ref if bad else allr[a % len(allr)]
            lines.append("inode %d" % ref)
        elif kind == "lsdir":
            lines.append("lsdir %d" % (rnd_ref if bad else (dirs[a % len(dirs)] if inv != 1 else allr[a % len(allr)])))
        elif kind == "lspart":
            lines.append("lspart %d %d" % (dirs[a % len(dirs)], b % 5))
        elif kind == "rawls":
            # low-level cursor, one object for the whole history: partial listings (0..4 entries) leave it in the middle of a header run
            lines.append("rawls %d %d" % (rnd_ref if bad else (dirs[a % len(dirs)] if inv != 1 else allr[a % len(allr)]), -1 if c % 4 == 0 else b % 5))
        elif kind == "rawzip":
            # (the largest directories have several header runs: the alternation then also happens exactly at run boundaries)
            big = P.get("bigdirs") or dirs
            lines.append("rawzip %d %d" % (rnd_ref if bad else big[a % len(big)], dirs[b % len(dirs)] if c % 3 else big[b % len(big)]))
        elif kind == "mcont":
            lines.append("mcont %d" % [40, 600, 3000, 9000, 20000][c % 5])
        elif kind == "rawcont":
            lines.append("rawcont %d" % (-1 if c % 4 == 0 else 1 + b % 5))
        elif kind == "resolve":
            if bad or not P["paths"]:
                lines.append("resolve %s" % ["nonexistent/x", "/", "..", "sub/../../x", "many/e0000/x", "big/", "//sub//deep", ""][a % 8])
            else:
                lines.append("resolve %s" % P["paths"][a % len(P["paths"])].decode("latin-1").replace("\n", "?"))
        elif kind == "inum":
            lines.append("inum %d" % (b if bad else 1 + a % P["ninodes"]))
        elif kind in ("read", "block", "frag", "stream", "cross"):
            ref = rnd_ref if bad else (files[a % len(files)] if inv != 1 else allr[a % len(allr)])
            size, nb = P["sizes"].get(ref, (4096, 1))
            if kind == "read":
                off = [0, size // 2, max(0, size - 1), size, size + 1, b % (size + 1)][c % 6]
                lines.append("read %d %d %d" % (ref, off, [1, 100, 4096, 5000, 70000][c % 5]))
            elif kind == "block":
                lines.append("block %d %d" % (ref, (b % (nb + 2))))
            elif kind == "frag":
                lines.append("frag %d" % ref)
            elif kind == "stream":
                lines.append("stream %d %d" % (ref, [10, 4096, 4097, 100000][c % 4]))
            elif c % 2:
                lines.append("cross %d" % ref)
            else:
                # ... with another file read through the same data reader while the stream is open
                lines.append("cross %d %d" % (ref, files[b % len(files)]))
        elif kind == "xattr":
            lines.append("xattr %d" % (b if bad else (a % max(1, P["nx"]))))
        elif kind == "xdesc":
            lines.append("xdesc %d %d" % (b if bad else (a % max(1, P["nx"])), c % 4))
        elif kind == "id":
            lines.append("id %d" % (b % 70000 if bad else a % max(1, P["nid"])))
        elif kind == "mseek":
            blk = (b % (1 << 22)) if bad else P["blocks"][a % len(P["blocks"])]
            lines.append("mseek %d %d %d" % (blk, [0, 1, 100, 8191, 8192, 9000][c % 6] if inv < 3 else b % 8192, [1, 16, 100, 400][a % 4]))
    return lines, inval


def get_pool(opts):
    key = opts.get("pool_dir")
    if key not in POOL:
        POOL[key] = build_pool(key)
    return POOL[key]


def check_case(case, opts):
    pool = get_pool(opts)
    P = pool[case["pool"] % len(pool)]
    lines, inval = render(case, P)
    with Scratch("c10") as sc:
        of = os.path.join(sc, "ops.txt")
        with open(of, "w", encoding="latin-1") as fh:
            fh.write("\n".join(lines) + "\n")
        r = vcommon.run([opts["bin"], P["path"], of], timeout=120, env=None if P["damaged"] else {"VERIF_C10_STRICT": "1"})
        out = r.out.decode(errors="replace")
        if r.timeout:
            raise Violation("reader history does not terminate on %s" % os.path.basename(P["path"]), "\n".join(lines), sig="hang")
        san = r.sanitizer()
        if san:
            fr = [x.decode(errors="replace").strip() for x in r.err.split(b"\n") if b" #" in x and b"/repo/" in x][:4]
            raise Violation("reader API: %s (image %s)" % (san, os.path.basename(P["path"])), " | ".join(fr) + "\n" + "\n".join(lines), sig="crash")
        if r.rc == 3 or "MISMATCH" in out:
            m = [l for l in out.splitlines() if l.startswith("MISMATCH")]
            raise Violation("answer depends on the history (image %s): %s" % (os.path.basename(P["path"]), m[0] if m else out[:200]), "\n".join(lines), sig="history-dependent")
        if out.startswith("UNREADABLE"):
            return CaseInfo(False, ["unreadable_image"])
        if r.rc != 0:
            raise Violation("harness exit %s: %s" % (r.rc, (out + r.err.decode(errors="replace"))[-300:]), "\n".join(lines), sig="harness")
        parts = out.split()
        nfail = int(parts[2]) if len(parts) >= 3 else 0
        cl = ["img_" + os.path.basename(P["path"]).split(".")[0].split("_")[0] + ("_damaged" if P["damaged"] else "")]
        # non-trivial: a failed operation followed by further operations on the same readers
        raw = [i for i, l in enumerate(lines) if l.startswith("rawls ")]
        if len(raw) >= 2:
            cl.append("raw_cursor_reused")
        if any(l.startswith("rawcont ") and not lines[i - 1].startswith("raw") for i, l in enumerate(lines) if raw and i > raw[0]):
            cl.append("raw_cursor_continued_after_other_op")
        return CaseInfo(nfail >= 1 and len(lines) >= 4, cl + (["has_failed_op"] if nfail else []))


def strat(tier, opts):
    return cases(tier)


def main(tier, seed, scale=1.0):
    vbuild.build("asan")
    vbuild.build("plain")
    binp = harness()
    n = int((12000 if tier == "quick" else 200000) * scale)
    res = Result(PROP)
    with Scratch("c10pool") as pd:
        opts = {"prop": PROP, "bin": binp, "pool_dir": os.path.join(pd, "pool")}
        get_pool(opts)   # built once, before forking the shards
        vcommon.run_corpus(PROP, check_case, opts, res)
        for d in vcommon.run_shards("c10", "check_case", "strat", n, seed, tier, opts):
            res.merge_shard(d)
    res.rule = ("Hypothesis histories of 3-40 reader operations (14 kinds; ~10% invalid / out-of-range arguments, wrong inode types) over 19 images "
                "(5 tool-written compressors, 2 Python-written, 12 field-damaged); non-trivial = the history contains an operation that failed "
                "on the long-lived readers followed/preceded by others; oracle = after every step the same operation on fresh readers gives the "
                "same (status, digest); stream == positional read == blocks + fragment on readable files")
    res.assumptions = ["directory readers are created with flags 0 (the DOT_ENTRIES cache is documented as history dependent)"]
    res.extra["min_evaluations"] = n // 3
    return res


def replay(path):
    vbuild.build("asan")
    vbuild.build("plain")
    binp = harness()
    with Scratch("c10pool") as pd:
        return vcommon.replay_case(PROP, check_case, path, {"bin": binp, "pool_dir": os.path.join(pd, "pool")})
