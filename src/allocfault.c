/* allocfault - link-time wrappers (-Wl,--wrap=malloc,...) around the allocations made by project code.
 * VERIF_ALLOC_FAIL_K=k : the k-th allocation returns NULL (errno ENOMEM)
 * VERIF_ALLOC_LOG=path : total number of allocations is appended at exit
 */
#include <errno.h>
#include <stdio.h>
#include <stdlib.h>
#include <string.h>

void *__real_malloc(size_t);
void *__real_calloc(size_t, size_t);
void *__real_realloc(void *, size_t);
char *__real_strdup(const char *);
char *__real_strndup(const char *, size_t);

static long counter, fail_k = -2, delivered;

static void report(void)
{
	const char *p = getenv("VERIF_ALLOC_LOG");
	FILE *f;
	if (!p)
		return;
	f = fopen(p, "a");
	if (f) {
		fprintf(f, "ALLOCS %ld delivered=%ld\n", counter, delivered);
		fclose(f);
	}
}

static int should_fail(void)
{
	long k;
	if (fail_k == -2) {
		const char *e = getenv("VERIF_ALLOC_FAIL_K");
		fail_k = e ? atol(e) : -1;
		atexit(report);
	}
	k = __sync_add_and_fetch(&counter, 1);
	if (k == fail_k) {
		delivered = 1;
		errno = ENOMEM;
		return 1;
	}
	return 0;
}

void *__wrap_malloc(size_t n) { return should_fail() ? NULL : __real_malloc(n); }
void *__wrap_calloc(size_t a, size_t b) { return should_fail() ? NULL : __real_calloc(a, b); }
void *__wrap_realloc(void *p, size_t n) { return should_fail() ? NULL : __real_realloc(p, n); }
char *__wrap_strdup(const char *s) { return should_fail() ? NULL : __real_strdup(s); }
char *__wrap_strndup(const char *s, size_t n) { return should_fail() ? NULL : __real_strndup(s, n); }

/* harness control: fail the k-th allocation counted from now; returns the number of allocations seen (negative if the fault was delivered) */
void verif_alloc_arm(long k)
{
	if (fail_k == -2)
		atexit(report);
	counter = 0;
	delivered = 0;
	fail_k = k;
}

long verif_alloc_disarm(void)
{
	long c = counter;
	fail_k = -1;
	return delivered ? -c : c;
}
