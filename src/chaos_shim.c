/* chaos_shim - LD_PRELOAD shim that perturbs the completion order of real worker threads and fakes the wall clock.
 * VERIF_CHAOS_SEED=n : at pthread_mutex_lock/unlock, pthread_cond_wait/signal/broadcast a per-thread PRNG decides to
 *                      do nothing, sched_yield() or nanosleep(0..2 ms).
 * VERIF_FAKE_TIME=t  : time(), gettimeofday(), clock_gettime(CLOCK_REALTIME) report t.
 */
#include <dlfcn.h>
#include <pthread.h>
#include <sched.h>
#include <stdlib.h>
#include <string.h>
#include <sys/time.h>
#include <time.h>

static int (*r_lock)(pthread_mutex_t *);
static int (*r_unlock)(pthread_mutex_t *);
static int (*r_wait)(pthread_cond_t *, pthread_mutex_t *);
static int (*r_bcast)(pthread_cond_t *);
static int (*r_signal)(pthread_cond_t *);
static int (*r_clock_gettime)(clockid_t, struct timespec *);
static unsigned long long seed;
static int chaos, fake, inited;
static long long fake_time;
static __thread unsigned long long trng;
static __thread int in_shim;

__attribute__((constructor)) static void init(void)
{
	if (inited)
		return;
	r_lock = dlsym(RTLD_NEXT, "pthread_mutex_lock");
	r_unlock = dlsym(RTLD_NEXT, "pthread_mutex_unlock");
	/* the condition variable functions exist in two ABI versions; an unversioned dlsym() may hand out the old one */
	r_wait = dlvsym(RTLD_NEXT, "pthread_cond_wait", "GLIBC_2.3.2");
	r_bcast = dlvsym(RTLD_NEXT, "pthread_cond_broadcast", "GLIBC_2.3.2");
	r_signal = dlvsym(RTLD_NEXT, "pthread_cond_signal", "GLIBC_2.3.2");
	if (!r_wait) r_wait = dlsym(RTLD_NEXT, "pthread_cond_wait");
	if (!r_bcast) r_bcast = dlsym(RTLD_NEXT, "pthread_cond_broadcast");
	if (!r_signal) r_signal = dlsym(RTLD_NEXT, "pthread_cond_signal");
	r_clock_gettime = dlsym(RTLD_NEXT, "clock_gettime");
	if (getenv("VERIF_CHAOS_SEED")) {
		chaos = 1;
		seed = strtoull(getenv("VERIF_CHAOS_SEED"), NULL, 10);
	}
	if (getenv("VERIF_FAKE_TIME")) {
		fake = 1;
		fake_time = atoll(getenv("VERIF_FAKE_TIME"));
	}
	__sync_synchronize();
	inited = 1;	/* last: other threads must not see a half initialised table */
}

static void perturb(void)
{
	unsigned int r;
	if (!chaos || in_shim)
		return;
	in_shim = 1;
	if (trng == 0)
		trng = (seed + 1) * 0x9E3779B97F4A7C15ULL ^ (unsigned long long)(size_t)pthread_self();
	trng ^= trng << 13;
	trng ^= trng >> 7;
	trng ^= trng << 17;
	r = (unsigned int)(trng >> 20) % 16;
	if (r < 4) {
		sched_yield();
	} else if (r == 4) {
		struct timespec ts = { 0, (long)((trng >> 8) % 2000000) };
		nanosleep(&ts, NULL);
	}
	in_shim = 0;
}

int pthread_mutex_lock(pthread_mutex_t *m) { init(); perturb(); return r_lock(m); }
int pthread_mutex_unlock(pthread_mutex_t *m) { int r; init(); r = r_unlock(m); perturb(); return r; }
int pthread_cond_wait(pthread_cond_t *c, pthread_mutex_t *m) { init(); perturb(); return r_wait(c, m); }
int pthread_cond_broadcast(pthread_cond_t *c) { init(); perturb(); return r_bcast(c); }
int pthread_cond_signal(pthread_cond_t *c) { init(); perturb(); return r_signal(c); }

time_t time(time_t *t)
{
	init();
	if (fake) {
		if (t)
			*t = (time_t)fake_time;
		return (time_t)fake_time;
	}
	{
		struct timespec ts;
		r_clock_gettime(CLOCK_REALTIME, &ts);
		if (t)
			*t = ts.tv_sec;
		return ts.tv_sec;
	}
}

int gettimeofday(struct timeval *tv, void *tz)
{
	struct timespec ts;
	(void)tz;
	init();
	if (fake) {
		tv->tv_sec = fake_time;
		tv->tv_usec = 0;
		return 0;
	}
	r_clock_gettime(CLOCK_REALTIME, &ts);
	tv->tv_sec = ts.tv_sec;
	tv->tv_usec = ts.tv_nsec / 1000;
	return 0;
}

int clock_gettime(clockid_t id, struct timespec *ts)
{
	init();
	if (fake && id == CLOCK_REALTIME) {
		ts->tv_sec = fake_time;
		ts->tv_nsec = 0;
		return 0;
	}
	return r_clock_gettime(id, ts);
}
