"""C01 - packing fidelity.

Hypothesis generates (tree, option set, input mode) cases; gensquashfs (asan build of the
current tree) packs them; the image is read by the independent parser (lib/sqfsimg.py) and
compared with the reference model (lib/treemodel.py, DESIGN Appendix A), then read back
through rdsquashfs (unpack + lstat walk, cat, stat, list, describe).  Unrepresentable inputs
must be refused.  Directed profiles hit the boundaries named in the property.
"""
import os, stat, hashlib, re
from hypothesis import strategies as st
import vcommon, vbuild, treemodel, packlib, sqfsimg
from vcommon import Violation, Inconclusive, CaseInfo, Result, Scratch

PROP = "C01"


# ------------------------------------------------------------------ directed profiles
def _file(path, content=("lit", b"x"), **kw):
    n = dict(path=path, type="file", mode=0o644, uid=0, gid=0, mtime=0, xattrs={}, content=content)
    n.update(kw)
    return n


def _dir(path, **kw):
    n = dict(path=path, type="dir", mode=0o755, uid=0, gid=0, mtime=0, xattrs={})
    n.update(kw)
    return n


@st.composite
def profile_bigdir(draw):
    n = draw(st.sampled_from([255, 256, 257, 511, 512, 513, 600]))
    nl = draw(st.sampled_from([1, 8, 40, 120, 250]))
    sub = draw(st.booleans())
    nodes = [_dir(b"d")] if sub else []
    pre = b"d/" if sub else b""
    # small inodes (fifo/socket 20, device 24, short symlink 24+, hard link 0 bytes) put more than 256 inodes into one
    # metadata block, so only the 256-entries-per-header rule ends a run there
    kinds = draw(st.sampled_from(["files", "mixed", "dirs", "fifos", "devs", "slinks", "hlinks", "smallmix"]))
    first = None
    for i in range(n):
        name = (b"%04d" % i).ljust(max(nl, 4), b"n")
        base = dict(path=pre + name, mode=0o644, uid=0, gid=0, mtime=0, xattrs={})
        k = kinds if kinds != "smallmix" else ["fifos", "devs", "slinks", "hlinks", "fifos"][i % 5]
        if kinds == "files" or (kinds == "mixed" and i % 3):
            nodes.append(_file(pre + name, ("lit", b"%d" % (i % 7)), uid=i % 3, mode=0o600 + (i % 64)))
        elif kinds in ("mixed", "dirs"):
            nodes.append(_dir(pre + name, gid=i % 5))
        elif k == "fifos":
            nodes.append(dict(base, type="fifo" if i % 2 else "sock"))
        elif k == "devs":
            nodes.append(dict(base, type="chr" if i % 2 else "blk", major=i % 7, minor=i))
        elif k == "slinks":
            nodes.append(dict(base, type="slink", mode=0o777, target=b"t%d" % (i % 10)))
        else:
            if first is None:
                first = pre + name
                nodes.append(_file(pre + name, ("lit", b"linked")))
            else:
                nodes.append(dict(base, type="hlink", target=first))
    return nodes


@st.composite
def profile_xattr_sets(draw):
    n = draw(st.sampled_from([511, 512, 513, 1024, 1025]))
    variant = draw(st.sampled_from(["plain", "shared", "pairs"]))
    shared = variant == "shared"
    nodes = []
    if variant == "pairs":
        # files 2i and 2i+1 share a value under a long key, and differ in a second attribute: each shared value is stored in line
        # at its first use, somewhere in a key/value area of many metadata blocks, and referenced from the second set - so some
        # first uses have their key record across (or ending on) a metadata block boundary
        klen = draw(st.integers(150, 230))
        key = b"user." + b"k" * klen
        for i in range(draw(st.sampled_from([300, 420, 600]))):
            xa = {key: b"shared value %06d" % (i // 2), b"user.u": b"u%d" % i}
            nodes.append(_file(b"f%04d" % i, ("lit", b""), xattrs=xa))
        return nodes
    for i in range(n):
        xa = {b"user.k": b"v%d" % i}
        if shared:
            xa[b"user.long"] = b"L" * 200
        nodes.append(_file(b"f%04d" % i, ("lit", b""), xattrs=xa))
    return nodes


@st.composite
def profile_ids(draw):
    n = draw(st.sampled_from([65534, 65535, 65536, 65537]))
    base = draw(st.sampled_from([1, 100000]))
    # root uses id 0; n-1 further distinct ids on n-1 directories (uid only) => n distinct ids in total
    nodes = [_dir(b"%05d" % i, uid=base + i, gid=0) for i in range(n - 1)]
    return nodes


@st.composite
def profile_unrepresentable(draw):
    k = draw(st.sampled_from(["longname", "longname_dir", "major", "minor", "hl_dir", "hl_missing", "hl_cycle", "xattr_key", "set_id"]))
    nodes = [_dir(b"d"), _file(b"d/f", ("lit", b"abc"))]
    if k == "set_id":
        # a forced owner that is not a 32 bit number (too large, negative, not a number at all); the largest id and hexadecimal are fine
        v = draw(st.sampled_from(["4294967296", "99999999999999999999", "-5", "abc", "12x", "", 4294967295, "0x10"]))
        return dict(kind=k if isinstance(v, str) and v != "0x10" else "set_id_ok", nodes=nodes, set_id=(draw(st.sampled_from(["set_uid", "set_gid"])), 16 if v == "0x10" else v, v))
    if k == "xattr_key":
        # (given through the xattr file; the longest representable name is 65535 bytes behind the prefix)
        ln = draw(st.sampled_from([65535, 65536, 65537, 70000, 131072 + 5]))
        return dict(kind=k if ln > 65535 else "xattr_key_max", nodes=nodes + [_file(b"p", ("lit", b"p"))],
                    xattr_file=[(b"d/f", {b"user." + b"k" * ln: b"v"}), (b"p", {b"user.after": b"w"})])
    if k == "longname":
        nodes.append(_file(b"d/" + b"n" * draw(st.sampled_from([257, 300, 1000, 65536, 70000])), ("lit", b"q")))
    elif k == "longname_dir":
        nodes.append(_dir(b"x" * draw(st.sampled_from([257, 512]))))
    elif k == "major":
        nodes.append(dict(path=b"dev", type="chr", mode=0o600, uid=0, gid=0, mtime=0, xattrs={},
                          major=draw(st.sampled_from([4096, 65536, 0xFFFFFFFF])), minor=1))
    elif k == "minor":
        nodes.append(dict(path=b"dev", type="blk", mode=0o600, uid=0, gid=0, mtime=0, xattrs={}, major=1,
                          minor=draw(st.sampled_from([1 << 20, 0xFFFFFFFF]))))
    elif k == "hl_dir":
        nodes.append(dict(path=b"l", type="hlink", mode=0, uid=0, gid=0, mtime=0, xattrs={}, target=b"d"))
    elif k == "hl_missing":
        nodes.append(dict(path=b"l", type="hlink", mode=0, uid=0, gid=0, mtime=0, xattrs={}, target=b"nothing"))
    else:
        nodes.append(dict(path=b"l1", type="hlink", mode=0, uid=0, gid=0, mtime=0, xattrs={}, target=b"l2"))
        nodes.append(dict(path=b"l2", type="hlink", mode=0, uid=0, gid=0, mtime=0, xattrs={}, target=b"l1"))
    return dict(kind=k, nodes=nodes)


@st.composite
def profile_metablocks(draw):
    """many inodes/entries so that the inode and directory tables cross 8 KiB blocks at varying alignments"""
    n = draw(st.integers(150, 700))
    pad = draw(st.integers(0, 60))
    if draw(st.sampled_from([False, False, True])):
        # metadata that does not compress: several 8 KiB blocks of the inode / directory / xattr tables are stored raw
        import random
        rng = random.Random(draw(st.integers(0, 1000)))
        rb = lambda k: bytes(rng.choice(b"abcdefghijklmnopqrstuvwxyzABCDEFGHIJKLMNOPQRSTUVWXYZ0123456789") for _ in range(k))
        nodes = []
        for i in range(draw(st.integers(20, 60))):
            nodes.append(dict(path=b"l%02d" % i + rb(draw(st.sampled_from([20, 200]))), type="slink", mode=0o777, uid=0, gid=0, mtime=0, xattrs={},
                              target=rb(draw(st.sampled_from([300, 900, 2500])))))
        for i in range(draw(st.integers(0, 24))):      # (values stay below what the host file system can store when unpacking)
            nodes.append(_file(b"x%02d" % i, ("lit", b"v"), xattrs={b"user.blob": bytes(rng.randrange(1, 256) for _ in range(draw(st.sampled_from([900, 1500, 1800]))))}))
        return nodes
    nodes = [_dir(b"p" * (pad + 1))]
    for i in range(n):
        t = i % 7
        p = b"p" * (pad + 1) + b"/" + (b"e%03d" % i) + b"x" * (i % 23)
        if t == 0:
            nodes.append(_dir(p, uid=i))
        elif t == 1:
            nodes.append(dict(path=p, type="slink", mode=0o777, uid=0, gid=0, mtime=0, xattrs={}, target=b"t" * (1 + i % 90)))
        elif t == 2:
            nodes.append(dict(path=p, type="chr", mode=0o600, uid=0, gid=0, mtime=0, xattrs={}, major=i % 4096, minor=i))
        else:
            nodes.append(_file(p, ("lit", b"%d" % i if i % 2 else b"")))
    return nodes


@st.composite
def cases(draw, tier="quick", force_sel=None):
    sel = draw(st.integers(0, 99)) if force_sel is None else force_sel
    if sel < 42:
        mode = "dir"
    elif sel < 78:
        mode = "file"
    elif sel < 88:
        mode = "glob"
    else:
        mode = draw(st.sampled_from(["file", "file", "dir"]))
    o = draw(packlib.pack_opts(mode=mode))
    case = {"mode": mode, "opts": o, "profile": None}
    if sel >= 88:
        prof = draw(st.sampled_from(["bigdir", "bigdir", "xattr_sets", "xattr_sets", "meta", "meta", "unrep", "unrep"]))
        case["profile"] = prof
        o["B"] = 4096
        if prof == "bigdir":
            case["nodes"] = draw(profile_bigdir())
            if any(n["type"] not in ("file", "dir") for n in case["nodes"]):
                case["mode"] = "file"
        elif prof == "meta":
            case["nodes"] = draw(profile_metablocks())
            if any(n.get("xattrs") for n in case["nodes"]):
                case["mode"] = "file"
                case["xattr_file"] = [(n["path"], n["xattrs"]) for n in case["nodes"] if n.get("xattrs")]
        elif prof == "xattr_sets":
            case["nodes"] = draw(profile_xattr_sets())
            case["mode"] = "file"
            case["xattr_file"] = [(n["path"], n["xattrs"]) for n in case["nodes"]]
        elif prof == "ids":
            case["nodes"] = draw(profile_ids())
            case["mode"] = "file"
            o["defaults"] = {}
            for k in ("set_uid", "set_gid", "all_root"):
                o.pop(k, None)
        else:
            u = draw(profile_unrepresentable())
            case["nodes"] = u["nodes"]
            case["mode"] = "file"
            case["unrep_kind"] = u["kind"]
            if u.get("xattr_file"):
                case["xattr_file"] = u["xattr_file"]
            if u.get("set_id"):
                for k_ in ("set_uid", "set_gid", "all_root"):
                    o.pop(k_, None)
                o[u["set_id"][0]] = u["set_id"][1]
                o["set_id_spelling"] = u["set_id"][2]
        if case["mode"] == "file":
            o.setdefault("quote_all", False)
            o.setdefault("loc_style", 0)
            o.setdefault("packdir_mode", 0)
            for k in ("keep_time", "keep_xattr", "no_hard_links"):
                o.pop(k, None)
        return case
    if mode == "glob":
        types = draw(st.sampled_from([None, None, ["d", "f"], ["d", "f", "l"], ["d"], ["f"]]))
        case["glob"] = dict(prefix=draw(st.sampled_from([b"", b"/", b"/pre", b"/a/b", b"pre/"])),
                            mode=draw(st.one_of(st.none(), treemodel.modes())),
                            uid=draw(st.one_of(st.none(), treemodel.ids())), gid=draw(st.one_of(st.none(), treemodel.ids())),
                            types=types, bare=draw(st.sampled_from([False, False, False, True])))
        case["nodes"] = draw(treemodel.trees(mode="dir", want_hlinks=True, want_xattrs=False, allow_newline=True))
        # -name / -path / -nonrecursive: patterns are made from names of the tree ('*' for a slice, '?' for a byte and for every
        # byte that is special to fnmatch), so that some entries match and some do not
        filt = draw(st.sampled_from([None, None, "name", "name", "path", "nonrec"]))
        names = [n["path"] for n in case["nodes"]]
        if filt in ("name", "path") and names:
            src = draw(st.sampled_from(names))
            pre = case["glob"]["prefix"].strip(b"/")
            if filt == "name":
                src = src.rsplit(b"/", 1)[-1]
            elif pre:
                src = pre + b"/" + src
            pat = bytearray()
            i = 0
            while i < len(src):
                c = src[i:i + 1]
                r = draw(st.sampled_from([0, 0, 0, 0, 1, 2]))
                if c == b"/" and filt == "path":
                    pat += c
                    i += 1
                elif r == 1 and pat.count(b"*") < 4:
                    if not pat.endswith(b"*"):
                        pat += b"*"
                    i += draw(st.integers(1, 3))    # (in -path patterns a star that swallowed a slash simply matches nothing)
                elif r == 2 or c in b"\\[]*?" or c[0] < 0x20 or c[0] >= 0x7f:
                    pat += b"?"
                    i += 1
                else:
                    pat += c
                    i += 1
            case["glob"][filt] = bytes(pat) or b"*"
        elif filt == "nonrec" and not any(n["type"] == "hlink" for n in case["nodes"]):
            # (which name of a multiply-linked file is kept depends on the scan order once one of them is filtered out)
            case["glob"]["nonrec"] = True
        return case
    case["nodes"] = draw(treemodel.trees(mode=mode))
    if mode == "file" or draw(st.integers(0, 3)) == 0:
        # xattr map file: for pack files the only xattr source; for directories in addition (on nodes without scanned xattrs)
        ents = []
        # an xattr-file entry that names one of several paths of a multi-link inode is left out: which path
        # carries the inode depends on the scan order and the documentation does not say what should happen
        linked = set()
        for n in case["nodes"]:
            if n["type"] == "hlink":
                t = treemodel.resolve_hlink(case["nodes"], n["path"])
                if t is not None:
                    linked.add(t["path"])
        for n in case["nodes"]:
            if n["type"] == "hlink" or (mode == "dir" and n["path"] in linked):
                continue
            if mode == "file" and n.get("xattrs"):
                ents.append((n["path"], n["xattrs"]))
            elif mode == "dir" and not n.get("xattrs") and draw(st.integers(0, 4)) == 0:
                ents.append((n["path"], draw(treemodel.xattr_sets(max_keys=2))))
        # paths in the map file are whole lines, trimmed on both sides: leave out names the format cannot carry
        ents = [(p, kv) for p, kv in ents if kv and b"\n" not in p and b"\r" not in p and p == p.strip() and not p.startswith(b"#")]
        if draw(st.integers(0, 5)) == 0:
            ents.append((b"", draw(treemodel.xattr_sets(max_keys=2))))  # the root
        ents = [(p, kv) for p, kv in ents if kv]
        if ents:
            case["xattr_file"] = ents
    return case


# ------------------------------------------------------------------ read back through the tools
def _lstat_tree(root):
    res = {}
    rootb = os.fsencode(root)
    for dp, dn, fn in os.walk(rootb):
        for name in dn + fn:
            p = os.path.join(dp, name)
            res[os.path.relpath(p, rootb)] = os.lstat(p)
    return res


def tool_readback(case, exp, image, scratch):
    rd = vcommon.tool("asan", "rdsquashfs")
    classes = []
    # --- describe / list root must work
    for args in (["-d"], ["-l", "/"]):
        r = vcommon.run([rd] + args + [image], timeout=60)
        if r.sanitizer() or r.timeout or r.rc != 0:
            raise Violation("rdsquashfs %s on a freshly packed image: rc=%s %s" % (" ".join(args), r.rc, r.sanitizer() or r.err[-300:]), None, sig="readback-tool")
    files = [p for p, e in exp.items() if e["type"] == "file"]
    # --- cat
    for p in sorted(files, key=lambda p: hashlib.md5(p).digest())[:5]:
        r = vcommon.run([rd, "-c", b"/" + p, image], timeout=60)
        if r.sanitizer() or r.timeout or r.rc != 0:
            raise Violation("rdsquashfs -c %r: rc=%s %s" % (p, r.rc, r.sanitizer() or r.err[-300:]), None, sig="readback-tool")
        if hashlib.sha256(r.out).hexdigest() != exp[p]["sha"]:
            raise Violation("rdsquashfs -c %r returns different bytes (%d bytes, expected %d)" % (p, len(r.out), exp[p]["size"]), None, sig="cat-diff")
        classes.append("cat")
    # --- stat
    for p in sorted(exp, key=lambda p: hashlib.md5(p).digest())[:5]:
        e = exp[p]
        if b"\n" in p:
            continue
        r = vcommon.run([rd, "-s", b"/" + p, image], timeout=60)
        if r.sanitizer() or r.timeout or r.rc != 0:
            raise Violation("rdsquashfs -s %r: rc=%s %s" % (p, r.rc, r.sanitizer() or r.err[-300:]), None, sig="readback-tool")
        f = {}
        for line in r.out.split(b"\n"):
            k, _, v = line.partition(b": ")
            f.setdefault(k, v)
        try:
            got = dict(mode=int(f[b"Access"], 8), uid=int(f[b"UID"].split()[0]), gid=int(f[b"GID"].split()[0]),
                       mtime=int(re.search(rb"\((\d+)\)$", f[b"Last modified"]).group(1)))
        except Exception as ex:
            raise Violation("rdsquashfs -s %r: unparsable output %r" % (p, r.out[:300]), None, sig="stat-format")
        for k in got:
            if got[k] != e[k]:
                raise Violation("rdsquashfs -s %r: %s %s, expected %s" % (p, k, got[k], e[k]), None, sig="stat-diff")
        if e["type"] == "file" and int(f[b"File size"]) != e["size"]:
            raise Violation("rdsquashfs -s %r: size %s expected %d" % (p, f[b"File size"], e["size"]), None, sig="stat-diff")
        if e["type"] in ("chr", "blk") and int(re.search(rb"\((\d+)\)$", f[b"Device number"]).group(1)) != e["devno"]:
            raise Violation("rdsquashfs -s %r: device %s expected %d" % (p, f[b"Device number"], e["devno"]), None, sig="stat-diff")
        classes.append("stat")
    # --- xattr dump (plain printable values only; other values are printed in a lossy way by design of the tool)
    for p in [p for p, e in exp.items() if e["xattrs"]][:3]:
        r = vcommon.run([rd, "-x", b"/" + p, image], timeout=60)
        if r.sanitizer() or r.timeout or r.rc != 0:
            raise Violation("rdsquashfs -x %r: rc=%s %s" % (p, r.rc, r.sanitizer() or r.err[-300:]), None, sig="readback-tool")
        lines = r.out.split(b"\n")
        for k, v in exp[p]["xattrs"].items():
            if v and all(0x21 <= c <= 0x7E for c in v) and (k + b"=" + v) not in lines:
                raise Violation("rdsquashfs -x %r: %r=%r not in output %r" % (p, k, v, r.out[:300]), None, sig="xattr-dump-diff")
        classes.append("xattr_dump")
    # --- unpack and walk
    R = os.path.join(scratch, "unpack")
    os.mkdir(R)
    setx = all(e["type"] in ("file", "dir") or all(not k.startswith(b"user.") for k in e["xattrs"]) for e in exp.values())
    flags = ["-C", "-O", "-T", "-q"] + (["-X"] if setx else [])
    # entries the host cannot hold: names longer than 255 bytes
    if any(len(c) > 255 for p in exp for c in p.split(b"/")) or any(len(p) > 3500 for p in exp):
        return classes
    r = vcommon.run([rd, "-u", "/", "-p", R] + flags + [image], timeout=120)
    if r.sanitizer() or r.timeout:
        raise Violation("rdsquashfs -u: %s" % (r.sanitizer() or "timeout"), r.err[-2000:].decode(errors="replace"), sig="readback-tool")
    if r.rc != 0:
        raise Violation("rdsquashfs -u / failed on a freshly packed image: %s" % r.err[-400:].decode(errors="replace"), None, sig="unpack-failed")
    got = _lstat_tree(R)
    want = {p: e for p, e in exp.items() if p != b""}
    if set(got) != set(want):
        raise Violation("unpacked tree has different paths: missing %r extra %r" % (sorted(set(want) - set(got))[:3], sorted(set(got) - set(want))[:3]),
                        None, sig="unpack-diff")
    tmap = {"dir": stat.S_IFDIR, "file": stat.S_IFREG, "slink": stat.S_IFLNK, "chr": stat.S_IFCHR, "blk": stat.S_IFBLK,
            "fifo": stat.S_IFIFO, "sock": stat.S_IFSOCK}
    Rb = os.fsencode(R)
    for p, e in want.items():
        s = got[p]
        if stat.S_IFMT(s.st_mode) != tmap[e["type"]]:
            raise Violation("unpacked %r has type %o, expected %s" % (p, stat.S_IFMT(s.st_mode), e["type"]), None, sig="unpack-diff")
        if e["type"] != "slink" and stat.S_IMODE(s.st_mode) != e["mode"]:
            raise Violation("unpacked %r has mode %o, expected %o" % (p, stat.S_IMODE(s.st_mode), e["mode"]), None, sig="unpack-diff")
        if 0xFFFFFFFF not in (e["uid"], e["gid"]) and (s.st_uid, s.st_gid) != (e["uid"], e["gid"]):
            raise Violation("unpacked %r has owner %d/%d, expected %d/%d" % (p, s.st_uid, s.st_gid, e["uid"], e["gid"]), None, sig="unpack-diff")
        if e["type"] != "slink" and int(s.st_mtime) != e["mtime"]:
            raise Violation("unpacked %r has mtime %d, expected %d" % (p, s.st_mtime, e["mtime"]), None, sig="unpack-diff")
        fp = os.path.join(Rb, p)
        if e["type"] == "slink" and os.readlink(fp) != e["target"]:
            raise Violation("unpacked symlink %r -> %r, expected %r" % (p, os.readlink(fp), e["target"]), None, sig="unpack-diff")
        if e["type"] in ("chr", "blk"):
            dn = (os.major(s.st_rdev) << 8 & 0xFFF00) | (os.minor(s.st_rdev) & 0xFF) | ((os.minor(s.st_rdev) & 0xFFF00) << 12)
            if dn != e["devno"]:
                raise Violation("unpacked device %r has number %d, expected %d" % (p, dn, e["devno"]), None, sig="unpack-diff")
        if e["type"] == "file":
            h = hashlib.sha256()
            with open(fp, "rb") as fh:
                while True:
                    b = fh.read(1 << 20)
                    if not b:
                        break
                    h.update(b)
            if h.hexdigest() != e["sha"]:
                raise Violation("unpacked file %r has different contents" % p, None, sig="unpack-diff")
        if setx:
            xs = {os.fsencode(k): os.getxattr(fp, k, follow_symlinks=False) for k in os.listxattr(fp, follow_symlinks=False)}
            if xs != e["xattrs"]:
                raise Violation("unpacked %r has xattrs %r, expected %r" % (p, xs, e["xattrs"]), None, sig="unpack-diff")
    classes.append("unpack")
    return classes


# ------------------------------------------------------------------ the property
def check_case(case, opts):
    with Scratch("c01") as sc:
        data, img, r, classes = packlib.check_pack_fidelity(case, sc)
        notes = r.ub_notes()
        if img is not None and opts.get("tools", True) and len(case["nodes"]) < 5000:
            exp = packlib.expected_for_case(case)
            classes += tool_readback(case, exp, os.path.join(sc, "out.sqfs"), sc)
        if case.get("profile"):
            classes.append("profile_" + case["profile"] + ("_" + case["unrep_kind"] if case.get("unrep_kind") else ""))
        nfiles = sum(1 for n in case["nodes"] if n["type"] == "file" and treemodel.recipe_size(n["content"], case["opts"]["B"]) > 0)
        nontrivial = (len(case["nodes"]) >= 3 and nfiles >= 1) or bool(case.get("profile"))
        return CaseInfo(nontrivial, classes, [n.split("runtime error:")[-1].strip()[:80] for n in notes][:3])


def strat(tier, opts):
    return cases(tier)


def heavy_case(args):
    """directed expensive cases, run beside the Hypothesis shards: the owner id limit"""
    n, seed = args
    import random as _r
    rng = _r.Random(seed * 977 + n)
    base = rng.choice([1, 70000])
    nodes = [_dir(b"%05d" % i, uid=base + i if i % 2 else 0, gid=base + i if not i % 2 else 0) for i in range(n - 1)]
    o = dict(comp=rng.choice(["gzip", "zstd", "lz4"]), X=None, B=4096, T=False, e=rng.choice([True, False]), j=None, Q=None, devblk=None,
             defaults={}, source_date_epoch=None, xattr_styles=[0], quote_all=False, loc_style=0, packdir_mode=0)
    case = {"mode": "file", "opts": o, "profile": "ids", "nodes": nodes}
    try:
        info = check_case(case, {"prop": PROP})
        return ("ok", n, info.classes, vcommon.case_hash(case))
    except Violation as v:
        p = vcommon.save_replay(PROP, case, v.what, {"detail": v.detail, "sig": v.sig})
        return ("violation", n, v.what, p)


# ------------------------------------------------------------------ a file larger than 4 GiB (holes)
def bigfile_case(args):
    """sparse host file of 4 GiB + delta with data at the start, across the 2^32 boundary and at the end; packed from a directory.
    Nothing of that size is materialised: the image is checked block by block, `rdsquashfs -c` is compared as a stream."""
    delta, B, comp, seed = args[:4]
    nosparse = len(args) > 4 and args[4]      # sort file marks the file [nosparse]: 4 GiB of zero blocks are really stored, the inode has no holes
    import random, subprocess
    rng = random.Random(seed * 31 + delta)
    base = args[5] if len(args) > 5 else (1 << 32)      # 9 GiB with 4 KiB blocks: 2.36 million block size words in one inode
    size = base + delta
    islands = [(0, rng.randbytes(5000)), ((1 << 32) - 7, rng.randbytes(4096 + 14)), (3 * (1 << 30) + 12345, rng.randbytes(100))]
    if delta > 10:
        islands.append((size - 9, rng.randbytes(9)))

    def model(off, n):
        buf = bytearray(n)
        for o, d in islands:
            lo, hi = max(o, off), min(o + len(d), off + n)
            if lo < hi:
                buf[lo - off:hi - off] = d[lo - o:hi - o]
        return bytes(buf)
    what = "file of %s%+d bytes (-b %d -c %s%s)" % ("2^32" if base == 1 << 32 else "%d GiB" % (base >> 30), delta, B, comp, ", [nosparse]" if nosparse else "")
    try:
        with Scratch("c01big") as sc:
            src = os.path.join(sc, "src")
            os.mkdir(src)
            fp = os.path.join(src, "big")
            with open(fp, "wb") as fh:
                fh.truncate(size)
                for o, d in islands:
                    fh.seek(o)
                    fh.write(d[:max(0, size - o)])
            with open(os.path.join(src, "small"), "wb") as fh:
                fh.write(b"neighbour")
            os.utime(fp, (1000, 1000))
            out = os.path.join(sc, "out.sqfs")
            extra = []
            if nosparse:
                sf = os.path.join(sc, "sort.txt")
                with open(sf, "wb") as fh:
                    fh.write(b"0 [nosparse] big\n")
                extra = ["-S", sf]
            r = vcommon.run([vcommon.tool("asan", "gensquashfs"), "--pack-dir", src, "-b", str(B), "-c", comp, "-q", "-j", "4"] + extra + [out], timeout=1800)
            if r.timeout:
                return ("violation", delta, "gensquashfs does not finish on a " + what, None)
            if r.sanitizer() or r.rc != 0:
                return ("violation", delta, "gensquashfs on a %s: rc=%s %s %s" % (what, r.rc, r.sanitizer() or "", r.err[-200:].decode(errors="replace")), None)
            img = sqfsimg.Image(open(out, "rb").read())
            ino = img.paths.get(b"big")
            if ino is None or ino.size != size:
                return ("violation", delta, "%s stored with size %s" % (what, None if ino is None else ino.size), None)
            # block by block against the model
            pos, off = ino.blocks_start, 0
            nb_data = 0
            for w in ino.block_sizes:
                want = min(B, size - off)
                if w == 0 and nosparse:
                    return ("violation", delta, "%s: block at offset %d is stored as a hole although the file is marked nosparse" % (what, off), None)
                if w == 0:
                    if any(model(off, want)):
                        return ("violation", delta, "%s: block at offset %d is stored as a hole but holds data" % (what, off), None)
                else:
                    n = w & 0xFFFFFF
                    raw = img.d[pos:pos + n]
                    blk = raw if w & (1 << 24) else sqfsimg.decompress(img.comp, raw, B)
                    if blk.ljust(want, b"\0") != model(off, want):
                        return ("violation", delta, "%s: data block at offset %d differs" % (what, off), None)
                    pos += n
                    nb_data += 1
                off += want
            if ino.frag_idx != sqfsimg.NOFRAG:
                fb = img.frag_block(ino.frag_idx)
                tail = size - off
                if fb[ino.frag_off:ino.frag_off + tail] != model(off, tail):
                    return ("violation", delta, "%s: tail fragment differs" % what, None)
                off += tail
            if off != size:
                return ("violation", delta, "%s: blocks and fragment cover %d bytes" % (what, off), None)
            v = sqfsimg.validate(img, 4096)
            if v:
                return ("violation", delta, "%s: image violates %s" % (what, "; ".join(v[:2])), None)
            # rdsquashfs -c as a stream
            e = dict(os.environ)
            e.update(vbuild.ASAN_ENV)
            p = subprocess.Popen([vcommon.tool("asan", "rdsquashfs"), "-c", "/big", out], stdout=subprocess.PIPE, stderr=subprocess.PIPE, env=e)
            got = 0
            bad = None
            zero = bytes(1 << 20)
            while True:
                chunk = p.stdout.read(1 << 20)
                if not chunk:
                    break
                exp = model(got, len(chunk)) if any(o < got + len(chunk) and got < o + len(d) for o, d in islands) else (zero if len(chunk) == len(zero) else bytes(len(chunk)))
                if bad is None and chunk != exp:
                    bad = got
                got += len(chunk)
            p.wait()
            err = p.stderr.read()
            if p.returncode != 0 or b"Sanitizer" in err:
                return ("violation", delta, "rdsquashfs -c on the %s: rc=%s %s" % (what, p.returncode, err[-300:].decode(errors="replace")), None)
            if got != size or bad is not None:
                return ("violation", delta, "rdsquashfs -c returns %d bytes for the %s%s" % (got, what, "" if bad is None else ", first difference near offset %d" % bad), None)
            # stat
            r = vcommon.run([vcommon.tool("asan", "rdsquashfs"), "-s", "/big", out], timeout=60)
            if r.rc != 0 or (b"%d" % size) not in r.out:
                return ("violation", delta, "rdsquashfs -s does not report %d bytes for the %s" % (size, what), None)
            return ("ok", delta, ["bigfile_%dg%+d%s" % (base >> 30, delta, "_nosparse" if nosparse else ""), "bigfile_data_blocks_%d" % min(nb_data, 9999)],
                    "bigfile-%d-%d-%d-%s-%s" % (base, delta, B, comp, nosparse))
    except sqfsimg.FormatError as ex:
        return ("violation", delta, "%s: image does not parse: %s" % (what, ex), None)


def main(tier, seed, scale=1.0):
    vbuild.build("asan")
    n = int((480 if tier == "quick" else 8000) * scale)
    res = Result(PROP)
    vcommon.run_corpus(PROP, check_case, {"prop": PROP}, res)
    import multiprocessing as mp
    heavy = [65535, 65536] if tier == "quick" else [65534, 65535, 65536, 65537]
    hp = mp.get_context("fork").Pool(2)
    hres = hp.map_async(heavy_case, [(h, seed) for h in heavy], chunksize=1)
    bigs = [(1, 1 << 20, "gzip", seed), (5, 1 << 20, "lz4", seed, True)] if tier == "quick" else [(7, 1 << 20, "zstd", seed, True), (1, 4096, "gzip", seed, False, 9 << 30), (0, 1 << 20, "zstd", seed), (1, 1 << 20, "gzip", seed), (-1, 1 << 20, "lz4", seed),
                                                                (5000, 131072, "gzip", seed), (123457, 1 << 20, "xz", seed)]
    bp = mp.get_context("fork").Pool(2)
    bres = bp.map_async(bigfile_case, bigs if scale >= 0.2 else [], chunksize=1)
    for d in vcommon.run_shards("c01", "check_case", "strat", n, seed, tier, {"prop": PROP}, shards=14):
        res.merge_shard(d)
    for r in hres.get():
        if r[0] == "ok":
            res.evaluations += 1
            res.nontrivial.add(r[3])
            res.add_class("heavy_ids_%d" % r[1])
            for c in r[2]:
                res.add_class(c)
        else:
            res.violations.append(("%d distinct owner ids: %s" % (r[1], r[2]), r[3]))
    hp.close()
    for r in bres.get():
        if r[0] == "ok":
            res.evaluations += 1
            res.nontrivial.add(r[3])
            for c in r[2]:
                res.add_class(c)
        else:
            res.violations.append((r[2], vcommon.save_replay(PROP, dict(bigfile=True, delta=r[1], seed=seed, nosparse=("nosparse" in r[2]), nine_gib=("9 GiB" in r[2])), r[2])))
    bp.close()
    res.rule = ("Hypothesis: random trees (all inode types, hostile names, content recipes around k*B, sparse, duplicates, shared "
                "tails/leading blocks, hard links, xattrs) x option sets (compressor+extras, block size, -T -e -j -Q -B, --defaults, "
                "--set-uid/gid, -k -x -H, xattr file) x input mode (pack-dir, pack-file, glob) plus directed profiles (256/512-entry "
                "directories, metadata block crossings, k*512 xattr sets, 65535/65536 owner ids, a file of 2^32+delta bytes made of holes with data "
                "islands at the start, across 2^32 and at the end, unrepresentable inputs); non-trivial = "
                ">=3 nodes and >=1 non-empty regular file, or a profile; distinct by sha256 of the case; oracle = independent parser vs "
                "reference model, then rdsquashfs unpack/cat/stat/list/describe/xattr read-back")
    res.assumptions = ["reference model of DESIGN Appendix A (from gensquashfs.1)", "independent parser lib/sqfsimg.py (from doc/format.adoc)",
                       "sandbox runs as root on ext4 (chown, mknod, trusted./security. xattrs)"]
    res.extra["min_evaluations"] = n // 3
    return res


def replay(path):
    vbuild.build("asan")
    c = vcommon.load_replay(path)["case"]
    if isinstance(c, dict) and c.get("bigfile"):
        res = Result(PROP)
        a = (c["delta"], c.get("B", 1 << 20), c.get("comp", "lz4" if c.get("nosparse") else "gzip"), c.get("seed", 1), bool(c.get("nosparse")))
        if c.get("nine_gib"):
            a = (c["delta"], 4096, "gzip", c.get("seed", 1), False, 9 << 30)
        r = bigfile_case(a)
        res.evaluations = 1
        if r[0] != "ok":
            res.violations.append((r[2], path))
        return res
    return vcommon.replay_case(PROP, check_case, path)
