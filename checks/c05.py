"""C05 - reading an untrusted image never corrupts memory, hangs or aborts.

(a) libFuzzer campaign on src/fz_image.c (library reader API as the tools use it, ASan+UBSan, bounded work),
    seeded with Python-written images (uncompressed metadata, every inode type, fragments, xattrs incl. out-of-line
    values, extended directory with index, export table) and tool-written images for every compressor; also from an
    empty corpus.  A crash-/leak- artifact is a violation; timeouts are re-run stand-alone before they count.
(c) Hypothesis structure-aware mutation: a Python-written image + its layout map; 1-3 fields (sizes, counts, offsets,
    types, references, block size words, directory entry fields, table pointers) are set to boundary values or to
    another object's value, loops are built (a directory listing itself or an ancestor); the ASan CLI tools
    (rdsquashfs -l/-d/-s/-x/-c/-u, sqfs2tar, sqfsdiff) run as sub-processes with a time limit.
Oracle: no sanitizer report, no signal, exit status in {0,1} (sqfsdiff {0,1,2}), termination within the limit.
"""
import os, json, glob, hashlib, shutil, subprocess, struct, time
from hypothesis import strategies as st
import vcommon, vbuild, sqfswrite, sqfsimg
from vcommon import Violation, Inconclusive, CaseInfo, Result, Scratch

PROP = "C05"
FZ_ENV = {"ASAN_OPTIONS": "detect_leaks=0:allocator_may_return_null=1:max_allocation_size_mb=1024:abort_on_error=1:symbolize=1",
          "UBSAN_OPTIONS": "print_stacktrace=1:halt_on_error=0"}


# ------------------------------------------------------------------ seeds
def tool_seed_images(scratch):
    """small tool-written images, one per compressor"""
    src = os.path.join(scratch, "seedsrc")
    os.makedirs(os.path.join(src, "d", "e"))
    with open(os.path.join(src, "a"), "wb") as fh:
        fh.write(b"hello world\n" * 30)
    with open(os.path.join(src, "d", "b"), "wb") as fh:
        fh.write(bytes(range(256)) * 20)
    with open(os.path.join(src, "d", "z"), "wb") as fh:
        fh.write(b"\0" * 9000 + b"x")
    os.symlink("../a", os.path.join(src, "d", "l"))
    os.link(os.path.join(src, "a"), os.path.join(src, "d", "e", "hl"))
    try:
        os.setxattr(os.path.join(src, "a"), "user.k", b"v" * 30)
        os.setxattr(os.path.join(src, "d"), "user.k", b"v" * 30)
    except OSError:
        pass
    out = []
    for comp in ("gzip", "xz", "lzma", "lz4", "zstd"):
        p = os.path.join(scratch, "seed_%s.sqfs" % comp)
        r = vcommon.run([vcommon.tool("plain", "gensquashfs"), "--pack-dir", src, "-c", comp, "-b", "4096", "-x", "-e", "-q", "-B", "1024", p], timeout=60)
        if r.rc == 0:
            out.append(open(p, "rb").read())
    return out


def python_seed_images():
    out = []
    for dc in (False, True):
        img, _ = sqfswrite.build(sqfswrite.simple_tree(), data_comp=dc, pad=0)
        out.append(img)
    many = dict(type="dir", name=b"", children=[dict(type="file", name=b"n%03d" % i, data=b"x" * (i % 7), frag=True) for i in range(300)] +
                [dict(type="dir", name=b"sub%d" % i, children=[dict(type="slink", name=b"s", target=b"t" * i)]) for i in range(1, 4)])
    img, _ = sqfswrite.build(many, pad=0)
    out.append(img)
    return out


def write_seeds(d, scratch):
    os.makedirs(d, exist_ok=True)
    n = 0
    for img in python_seed_images() + tool_seed_images(scratch):
        for sel in (0x00, 0x11, 0x1E, 0x90, 0x31):
            with open(os.path.join(d, "seed%03d" % n), "wb") as fh:
                fh.write(img + bytes([sel]))
            n += 1
    for f in sorted(glob.glob(os.path.join(vcommon.VERIF, "corpus", PROP, "fz_*"))):
        shutil.copy(f, os.path.join(d, os.path.basename(f)))
    return n


# ------------------------------------------------------------------ (a) fuzz campaign
def run_fuzzer(binp, corpus, workdir, seconds, jobs, seed, extra=()):
    art = os.path.join(workdir, "artifacts")
    os.makedirs(art, exist_ok=True)
    stats = os.path.join(workdir, "stats")
    os.makedirs(stats, exist_ok=True)
    procs = []
    env = dict(os.environ)
    env.update(FZ_ENV)
    env["TMPDIR"] = workdir      # whatever a target creates lives and dies with the scratch directory
    for j in range(jobs):
        e = dict(env, VERIF_FZ_STATS=os.path.join(stats, "s%d.json" % j))
        cmd = [binp, corpus, "-max_total_time=%d" % seconds, "-seed=%d" % (seed * 1000 + j + 1), "-artifact_prefix=%s/" % art, "-timeout=20", "-rss_limit_mb=3000",
               "-max_len=%d" % (1 << 16), "-print_final_stats=1", "-detect_leaks=0", "-len_control=20"] + list(extra)
        procs.append(subprocess.Popen(cmd, stdout=subprocess.DEVNULL, stderr=open(os.path.join(workdir, "fz%d.log" % j), "wb"), env=e))
    for p in procs:
        try:
            p.wait(timeout=seconds + 120)
        except subprocess.TimeoutExpired:
            p.kill()
    tot = {}
    for f in glob.glob(os.path.join(stats, "*.json")):
        try:
            for k, v in json.load(open(f)).items():
                tot[k] = tot.get(k, 0) + v
        except Exception:
            pass
    arts = sorted(glob.glob(os.path.join(art, "*")))
    return tot, arts


def confirm_artifact(binp, path):
    """re-run a crash/timeout artifact stand-alone; returns description or None"""
    env = dict(os.environ)
    env.update(FZ_ENV)
    for _ in range(2):
        try:
            p = subprocess.run([binp, "-timeout=30", path], stdout=subprocess.PIPE, stderr=subprocess.PIPE, env=env, timeout=120)
        except subprocess.TimeoutExpired:
            return "does not terminate within 120 s (stand-alone)"
        err = p.stderr
        if p.returncode != 0:
            for l in err.split(b"\n"):
                if b"ERROR: AddressSanitizer" in l or b"runtime error:" in l or b"ERROR: libFuzzer" in l:
                    fr = [x.decode(errors="replace").strip() for x in err.split(b"\n") if b" #" in x and b"/repo/" in x][:3]
                    return l.decode(errors="replace").strip()[:300] + " | " + " | ".join(fr)
            return "exit status %d" % p.returncode
    return None


# ------------------------------------------------------------------ (c) structure-aware mutation through the CLI
def _unbounded(applied):
    """a file size field raised beyond 64 MiB legitimately asks for that much output; block size words and small sizes do not"""
    return any(("size" in a[0] or "sparse" in a[0]) and "blk" not in a[0] and a[2] > (1 << 26) for a in applied)


@st.composite
def mut_cases(draw, tier="quick"):
    base = draw(st.integers(0, 2))
    nm = draw(st.integers(0, 3))
    muts = []
    for _ in range(nm):
        muts.append((draw(st.integers(0, 10 ** 6)), draw(st.sampled_from(["zero", "one", "max", "max-1", "plus1", "minus1", "other", "half", "x256", "bit"])),
                     draw(st.integers(0, 63))))
    loop = draw(st.sampled_from([None, None, None, "self", "parent", "root", "sibling_dir_twice"]))
    if draw(st.sampled_from([False, False, False, False, True])):
        # valid image, directory index with many entries of varied name lengths (12 + len bytes each)
        lens = [draw(st.integers(100, 132))] + [draw(st.integers(4, 24)) for _ in range(draw(st.integers(20, 200)))]
        return dict(base=base, muts=[], loop=None, idx_lens=lens, tool=draw(st.sampled_from(["list", "describe", "stat", "sqfs2tar", "diff", "unpack"])),
                    path=draw(st.sampled_from([b"/", b"/idx", b"/idx"])))
    if draw(st.sampled_from([False] * 7 + [True])):
        return dict(base=base, muts=muts[:1], loop=None, sbflags=draw(st.sampled_from([0x0200, 0x0200, 0x0200, 0x0080, 0x0010, 0x0020, 0x0001, 0x0002, 0x0800, 0x0400, 0x0290])),
                    tool=draw(st.sampled_from(["list", "describe", "stat", "xattr", "cat", "unpack", "unpack", "unpack", "sqfs2tar", "diff"])),
                    path=draw(st.sampled_from([b"/", b"/sub", b"/big", b"/f03", b"/sub/hl"])))
    focus = draw(st.sampled_from([False, False, True]))
    if focus:
        # one field of a regular file's inode (size, block words, fragment location, start) changed, then the data of exactly that file is read
        muts = [(draw(st.integers(0, 10 ** 6)), draw(st.sampled_from(["plus1", "minus1", "half", "bit", "bit", "one", "x256", "other", "zero", "max", "v120", "v600"])),
                 draw(st.integers(0, 31)))]
        loop = None
        return dict(base=base, muts=muts, loop=None, focus=True, tool=draw(st.sampled_from(["cat", "cat", "cat", "unpack", "sqfs2tar", "sqfs2tar", "diff", "stat", "describe"])), path=b"/")
    tool = draw(st.sampled_from(["list", "describe", "stat", "xattr", "cat", "unpack", "sqfs2tar", "sqfs2tar_nohl", "diff"]))
    return dict(base=base, muts=muts, loop=loop, tool=tool, path=draw(st.sampled_from([b"/", b"/sub", b"/big", b"/sub/lnk", b"/f03", b"/sparse", b"/sub/hl", b"/empty", b"/smallblk", b"/smallblk"])))


def build_mutated(case):
    if case["base"] == 2:
        root = dict(type="dir", name=b"", children=[dict(type="dir", name=b"sub", id="sub", children=[dict(type="file", name=b"big", data=b"q" * 5000, frag=True),
                                                                                                    dict(type="dir", name=b"deep", id="deep", children=[])]),
                                                    dict(type="file", name=b"f03", data=b"abc" * 100, frag=True)], id="root")
    else:
        root = sqfswrite.simple_tree()
        root["id"] = "root"
        for c in root["children"]:
            if c.get("name") == b"sub":
                c["id"] = "sub"
    if case.get("idx_lens"):
        # a directory with one header (hence one index entry) per entry and index names of chosen lengths: the readers size the
        # index buffer of the extended directory inode while they read it
        kids = []
        for i, ln in enumerate(case["idx_lens"]):
            nm = (b"%04d" % i).ljust(ln, b"i")[:max(4, ln)]
            kids.append(dict(type="file", name=nm, data=b"", frag=False))
        root["children"].append(dict(type="dir", name=b"idx", children=kids, index=True, ext=True, run_max=1))
    lp = case.get("loop")
    sub = next(c for c in root["children"] if c.get("name") == b"sub")
    if lp == "self":
        sub["children"].append(dict(name=b"loop", link_to="sub", type="dir"))
    elif lp in ("parent", "root"):
        sub["children"].append(dict(name=b"up", link_to="root", type="dir"))
    elif lp == "sibling_dir_twice":
        root["children"].append(dict(name=b"sub_again", link_to="sub", type="dir"))
    img, lay = sqfswrite.build(root, data_comp=(case["base"] == 1), pad=4096)
    img = bytearray(img)
    fields = [f for f in lay if f[1] + f[2] <= len(img)]
    applied = []
    if case.get("sbflags"):
        # super block feature flags that contradict what the image contains (no-xattrs with xattr indices in use, exportable without
        # export table, no-fragments with fragments, ...)
        cur = int.from_bytes(img[24:26], "little")
        new_ = cur ^ case["sbflags"]
        img[24:26] = new_.to_bytes(2, "little")
        applied.append(("sb.flags", cur, new_))
    # a quarter of the mutations aim at the fields that describe where and how long data is (block words, sizes, fragment locations)
    hot = [f for f in fields if any(k in f[0] for k in ("blk", "size", "frag", "start"))] or fields
    filef = [f for f in fields if (".file." in f[0] or ".slink." in f[0]) and not f[0].endswith((".nlink", ".xattr"))] or fields
    for sel, how, bit in case["muts"]:
        if case.get("focus"):
            name, off, w = filef[sel % len(filef)]
        else:
            name, off, w = (hot[(sel // 4) % len(hot)] if sel % 4 == 0 else fields[sel % len(fields)])
        cur = int.from_bytes(img[off:off + w], "little")
        mx = (1 << (8 * w)) - 1
        if how == "zero":
            v = 0
        elif how == "one":
            v = 1
        elif how == "max":
            v = mx
        elif how == "max-1":
            v = mx - 1
        elif how == "plus1":
            v = (cur + 1) & mx
        elif how == "minus1":
            v = (cur - 1) & mx
        elif how == "half":
            v = cur // 2
        elif how == "x256":
            v = (cur * 256) & mx
        elif how == "bit":
            v = cur ^ (1 << (bit % (8 * w)))
        elif how[:1] == "v":
            v = int(how[1:]) & mx      # a plausible, moderately larger value (length fields: beyond the 100 byte tar header field, below a metadata block)
        else:
            n2, o2, w2 = fields[(sel * 7 + 3) % len(fields)]
            v = int.from_bytes(img[o2:o2 + w2], "little") & mx
        img[off:off + w] = v.to_bytes(w, "little")
        applied.append((name, cur, v))
    return bytes(img), applied


_INO_PATH = {}


def _path_of_inode(case, num):
    """path of inode <num> in the unmutated base image"""
    key = case["base"]
    if key not in _INO_PATH:
        clean, _ = build_mutated(dict(case, muts=[], focus=False))
        im = sqfsimg.Image(clean)
        _INO_PATH[key] = {i.number: b"/" + p for p, i in im.paths.items()}
    return _INO_PATH[key].get(num)


def check_mut_case(case, opts):
    img, applied = build_mutated(case)
    tool = case["tool"]
    if case.get("focus") and applied:
        import re
        m = re.match(r"ino(\d+)\.", applied[0][0])
        pth = _path_of_inode(case, int(m.group(1))) if m else None
        if pth:
            case = dict(case, path=pth)
    with Scratch("c05") as sc:
        p = os.path.join(sc, "m.sqfs")
        with open(p, "wb") as fh:
            fh.write(img)
        rd = vcommon.tool("asan", "rdsquashfs")
        ok_rc = (0, 1)
        cwd = sc
        if tool == "list":
            cmd = [rd, "-l", case["path"], p]
        elif tool == "describe":
            cmd = [rd, "-d", p]
        elif tool == "stat":
            cmd = [rd, "-s", case["path"], p]
        elif tool == "xattr":
            cmd = [rd, "-x", case["path"], p]
        elif tool == "cat":
            # bounded: a mutated size field may legitimately ask for terabytes of zeros
            if _unbounded(applied):
                raise Inconclusive("cat of a file whose claimed size was enlarged is legitimately unbounded")
            cmd = [rd, "-c", case["path"], p]
        elif tool == "unpack":
            if _unbounded(applied):
                raise Inconclusive("unpack of a file whose claimed size was enlarged is legitimately unbounded")
            out = os.path.join(sc, "unp")
            os.mkdir(out)
            # (every --unpack-path other than / fails on this code base before anything is unpacked)
            cmd = [rd, "-u", b"/", "-p", out, "-q", "-T", "-C", "-X", p]
        elif tool in ("sqfs2tar", "sqfs2tar_nohl"):
            if _unbounded(applied):
                raise Inconclusive("archive of a file whose claimed size was enlarged is legitimately unbounded")
            cmd = [vcommon.tool("asan", "sqfs2tar")] + (["-L"] if tool.endswith("nohl") else []) + [p]
        else:
            clean, _ = sqfswrite.build(sqfswrite.simple_tree(), pad=4096)
            q = os.path.join(sc, "clean.sqfs")
            with open(q, "wb") as fh:
                fh.write(clean)
            cmd = [vcommon.tool("asan", "sqfsdiff"), "-a", p, "-b", q]
            ok_rc = (0, 1, 2)
        r = vcommon.run(cmd, timeout=opts.get("timeout", 20), cwd=cwd, stdout_file=os.path.join(sc, "stdout.bin"))
        what = "%s on an image with %s%s" % (tool, ", ".join("%s: %d -> %d" % a for a in applied), (" and a directory loop (%s)" % case["loop"]) if case.get("loop") else "")
        if r.timeout:
            # confirm: run again alone with a longer limit
            r2 = vcommon.run(cmd, timeout=60, cwd=cwd, stdout_file=os.path.join(sc, "stdout2.bin"))
            if r2.timeout:
                raise Violation("%s does not terminate (60 s)" % what, None, sig="hang-" + ("loop" if case.get("loop") else "field"))
            r = r2
        san = r.sanitizer()
        if san:
            fr = [x.decode(errors="replace").strip() for x in r.err.split(b"\n") if b" #" in x and b"/repo/" in x][:4]
            raise Violation("%s: %s" % (what, san), " | ".join(fr) + "\n" + r.err.decode(errors="replace")[-1500:], sig="crash")
        if r.rc not in ok_rc:
            raise Violation("%s: exit status %s" % (what, r.rc), r.err.decode(errors="replace")[-500:], sig="odd-status")
        try:
            sqfsimg.Image(img)
            parses = True
        except Exception:
            parses = False
        return CaseInfo(True, ["tool_" + tool, "rc_%d" % r.rc] + (["loop_" + case["loop"]] if case.get("loop") else []) + (["still_parses"] if parses else []))


def strat(tier, opts):
    return mut_cases(tier)


def check_case(case, opts):
    if case.get("shape"):
        return check_shape_case(case, opts)
    return check_mut_case(case, opts)


def check_dag_case(case, opts):
    """a directory inode that several entries point at (no loop: nothing is its own ancestor), repeated level after level: the
    number of paths doubles per level while the image stays a few KiB"""
    depth = case["depth"]
    node = dict(type="dir", name=b"a", id="L%d" % depth, children=[dict(type="file", name=b"leaf", data=b"x", frag=True)])
    for lv in range(depth - 1, 0, -1):
        node = dict(type="dir", name=b"a", id="L%d" % lv, children=[node, dict(type="dir", name=b"b", link_to="L%d" % (lv + 1))])
    root = dict(type="dir", name=b"", children=[node, dict(type="dir", name=b"b", link_to="L1")], mode=0o755)
    try:
        img, _ = sqfswrite.build(root, pad=4096)
    except Exception as e:
        raise Inconclusive("writer: %r" % e)
    with Scratch("c05d") as sc:
        p = os.path.join(sc, "dag.sqfs")
        with open(p, "wb") as fh:
            fh.write(img)
        r = vcommon.run([vcommon.tool("plain", "sqfs2tar"), p], timeout=case.get("limit", 20), cwd=sc, stdout_file="/dev/null")
        what = "sqfs2tar on a %d byte image in which %d directory inodes are each referenced by two entries of their parent (2^%d paths, no loop)" % (len(img), depth, depth)
        if r.timeout:
            raise Violation("%s does not finish within %d s" % (what, case.get("limit", 20)), None, sig="dir-dag-exponential" if depth >= 30 else "hang-shape")
        if r.sanitizer() or r.rc not in (0, 1):
            raise Violation("%s: %s" % (what, r.sanitizer() or ("exit status %s" % r.rc)), r.err.decode(errors="replace")[-800:], sig="crash")
        return CaseInfo(True, ["shape_dag_%d_rc%d" % (depth, r.rc)])


def check_xattr_sweep_case(case, opts):
    """valid images whose inodes carry many xattrs with key+value lengths sweeping across the points where derived records (PAX
    length prefixes in sqfs2tar, size fields) gain a digit or a byte"""
    lo, hi = case["range"]
    kids = []
    for n, klen in enumerate((6, 8, 13)):
        xa = {}
        for total in range(lo, hi):
            key = b"user." + (b"%03d" % (total % 1000)) + b"k" * max(0, klen - 8)
            xa[key] = bytes([33 + total % 90]) * max(0, total - len(key))
        kids.append(dict(type="file", name=b"f%d" % n, data=b"x", frag=True, xattrs=xa))
        kids.append(dict(type="slink", name=b"l%d" % n, target=b"f0", xattrs=dict(list(xa.items())[:25])))
    root = dict(type="dir", name=b"", children=kids, mode=0o755, xattrs=dict(list(kids[0]["xattrs"].items())[:30]))
    try:
        img, _ = sqfswrite.build(root, pad=4096)
    except Exception as e:
        raise Inconclusive("writer: %r" % e)
    with Scratch("c05x") as sc:
        p = os.path.join(sc, "x.sqfs")
        with open(p, "wb") as fh:
            fh.write(img)
        out = os.path.join(sc, "unp")
        os.mkdir(out)
        rd = vcommon.tool("asan", "rdsquashfs")
        cl = []
        for tool, cmd in (("sqfs2tar", [vcommon.tool("asan", "sqfs2tar"), p]), ("sqfs2tar_nohl", [vcommon.tool("asan", "sqfs2tar"), "-L", "-X", p]), ("xattr", [rd, "-x", "/f1", p]),
                          ("describe", [rd, "-d", p]), ("unpack", [rd, "-u", "/", "-p", out, "-q", "-X", p])):
            r = vcommon.run(cmd, timeout=60, cwd=sc, stdout_file=os.path.join(sc, "stdout.bin"))
            what = "%s on a valid image whose inodes carry %d xattrs each with key+value lengths %d..%d" % (tool, hi - lo, lo, hi - 1)
            if r.timeout:
                raise Violation("%s does not terminate" % what, None, sig="hang-shape")
            if r.sanitizer():
                raise Violation("%s: %s" % (what, r.sanitizer()), r.err.decode(errors="replace")[-1500:], sig="crash")
            if r.rc not in (0, 1):
                raise Violation("%s: exit status %s" % (what, r.rc), r.err.decode(errors="replace")[-500:], sig="odd-status")
            cl.append("shape_xattrs_%s_rc%d" % (tool, r.rc))
        return CaseInfo(True, cl)


def check_shape_case(case, opts):
    """valid images of an extreme shape written by gensquashfs itself: 'chain' = one directory inside the other, depth levels deep"""
    if case["shape"] == "dag":
        return check_dag_case(case, opts)
    if case["shape"] == "xattrs":
        return check_xattr_sweep_case(case, opts)
    depth = case["depth"]
    with Scratch("c05s") as sc:
        lf = os.path.join(sc, "l.txt")
        with open(lf, "wb") as fh:
            fh.write(b"dir " + b"/a" * depth + b" 0755 0 0\nfile " + b"/a" * min(depth, 50) + b"/f 0644 0 0 l.txt\n")
        p = os.path.join(sc, "deep.sqfs")
        r0 = vcommon.run([vcommon.tool("plain", "gensquashfs"), "-q", "-c", "gzip", "-F", lf, "-D", sc, p], timeout=120)
        if r0.rc != 0 or r0.timeout:
            raise Inconclusive("could not build the image: %s" % r0.err[-200:])
        q = os.path.join(sc, "clean.sqfs")
        with open(q, "wb") as fh:
            fh.write(sqfswrite.build(sqfswrite.simple_tree(), pad=4096)[0])
        out = os.path.join(sc, "unp")
        os.mkdir(out)
        rd = vcommon.tool(case.get("variant", "asan"), "rdsquashfs")
        cmds = {"describe": [rd, "-d", p], "list": [rd, "-l", "/", p], "stat": [rd, "-s", "/a/a/a", p], "unpack": [rd, "-u", "/", "-p", out, "-q", p],
                "sqfs2tar": [vcommon.tool(case.get("variant", "asan"), "sqfs2tar"), p], "sqfsdiff": [vcommon.tool(case.get("variant", "asan"), "sqfsdiff"), "-a", p, "-b", q],
                "sqfsdiff_self": [vcommon.tool(case.get("variant", "asan"), "sqfsdiff"), "-a", p, "-b", p]}
        cl = []
        for tool, cmd in cmds.items():
            if tool == "sqfs2tar" and depth > 5000:
                continue            # (every member carries its full path: the archive grows with the square of the depth)
            r = vcommon.run(cmd, timeout=120, cwd=sc, stdout_file=os.path.join(sc, "stdout.bin"))
            what = "%s on a valid image with %d nested directories" % (tool, depth)
            if r.timeout:
                raise Violation("%s does not terminate (120 s)" % what, None, sig="hang-shape")
            if r.sanitizer():
                raise Violation("%s: %s" % (what, r.sanitizer()), r.err.decode(errors="replace")[-1200:], sig="crash")
            if r.rc not in (0, 1, 2) or (r.rc == 2 and not tool.startswith("sqfsdiff")):
                raise Violation("%s: exit status %s" % (what, r.rc), r.err.decode(errors="replace")[-500:], sig="odd-status")
            cl.append("shape_chain_%s_rc%d" % (tool, r.rc))
        return CaseInfo(True, cl)


def _flag_job(args):
    base, flag, tool, path = args
    case = dict(base=base, muts=[], loop=None, sbflags=flag, tool=tool, path=path)
    try:
        check_mut_case(case, {"prop": PROP})
        return (case, None)
    except Inconclusive:
        return (case, None)
    except Violation as v:
        return (case, v.what)


def _field_job(args):
    base, idx, how, tool = args
    case = dict(base=base, muts=[(idx, how, 5)], loop=None, focus=True, tool=tool, path=b"/")
    try:
        check_mut_case(case, {"prop": PROP})
        return (case, None)
    except Inconclusive:
        return (case, None)
    except Violation as v:
        return (case, v.what)


def field_matrix():
    """every size / location field of every regular file and symlink inode x every boundary operation, then the tools that read exactly
    that inode's data (Hypothesis samples such triples very unevenly; the space is small enough to enumerate)"""
    jobs = []
    for base in (0, 1):
        img, lay = sqfswrite.build(sqfswrite.simple_tree(), data_comp=(base == 1), pad=4096)
        fields = [f for f in lay if f[1] + f[2] <= len(img)]
        filef = [f for f in fields if (".file." in f[0] or ".slink." in f[0]) and not f[0].endswith((".nlink", ".xattr"))]
        for idx, f in enumerate(filef):
            tools = ["cat", "sqfs2tar"] if ".file." in f[0] else ["sqfs2tar", "describe", "unpack"]
            for how in ("plus1", "minus1", "half", "x256", "zero", "one", "max", "other", "v120", "v600"):
                for tool in tools:
                    jobs.append((base, idx, how, tool))
    return vcommon.pmap(_field_job, jobs, 8)


def flag_matrix():
    """every super block feature flag flipped on its own (and the no-xattrs / no-fragments pairs) x every tool: small enough to enumerate"""
    flags = [1 << b for b in range(12)] + [0x0290, 0x0030, 0x0201]
    tools = ["list", "describe", "stat", "xattr", "cat", "unpack", "sqfs2tar", "sqfs2tar_nohl", "diff"]
    jobs = [(base, fl, tool, {"stat": b"/big", "xattr": b"/big", "cat": b"/big", "list": b"/sub"}.get(tool, b"/")) for base in (0, 1) for fl in flags for tool in tools]
    return vcommon.pmap(_flag_job, jobs, 6)


def main(tier, seed, scale=1.0):
    vbuild.build("asan")
    vbuild.build("plain")
    binp = vbuild.build_harness("fz_image", "fuzz", ["src/fz_image.c"], extra_ld=["-fsanitize=fuzzer"])
    res = Result(PROP)
    opts = {"prop": PROP}
    t0 = time.time()
    # --- (a)
    secs = int((50 if tier == "quick" else 900) * scale)
    with Scratch("c05fz") as sc:
        corpus = os.path.join(sc, "corpus")
        nseeds = write_seeds(corpus, sc)
        empty = os.path.join(sc, "empty")
        os.makedirs(empty)
        import multiprocessing as mp
        # structure-aware layer runs concurrently on 6 shards, the fuzzer on 10 cores (8 seeded + 2 from an empty corpus)
        n = int((1800 if tier == "quick" else 30000) * scale)
        import threading
        hout = {}
        hth = threading.Thread(target=lambda: hout.setdefault("r", vcommon.run_shards("c05", "check_case", "strat", n, seed, tier, opts, 6)))
        hth.start()
        w1 = os.path.join(sc, "w1")
        w2 = os.path.join(sc, "w2")
        os.makedirs(w1)
        os.makedirs(w2)
        import threading
        out = {}
        th = threading.Thread(target=lambda: out.setdefault("e", run_fuzzer(binp, empty, w2, secs, 2, seed + 7)))
        th.start()
        tot, arts = run_fuzzer(binp, corpus, w1, secs, 8, seed)
        th.join()
        tot2, arts2 = out["e"]
        for k, v in tot2.items():
            tot[k] = tot.get(k, 0) + v
        res.extra["fuzz"] = dict(seconds=secs, jobs=10, seeds=nseeds, **tot)
        res.evaluations += tot.get("execs", 0)
        for a in arts + arts2:
            base = os.path.basename(a)
            if base.startswith(("crash-", "leak-")) or base.startswith("timeout-"):
                why = confirm_artifact(binp, a)
                if why is None:
                    res.add_class("artifact_not_reproduced")
                    continue
                keep = os.path.join(vcommon.VERIF, "replays", PROP)
                os.makedirs(keep, exist_ok=True)
                dst = os.path.join(keep, base)
                shutil.copy(a, dst)
                res.violations.append(("fuzz artifact %s: %s" % (base.split("-")[0], why), dst))
            else:
                res.add_class("artifact_" + base.split("-")[0])
        # non-trivial: inputs that passed sqfs_super_read (counted inside the target)
        res.nt_count = tot.get("super_ok", 0)
        hth.join()
        for d in hout["r"]:
            res.merge_shard(d)
        if scale >= 0.2:
            fm = flag_matrix()
            res.add_class("flag_matrix", len(fm))
            fm2 = field_matrix()
            res.add_class("field_matrix", len(fm2))
            fm = fm + fm2
            res.evaluations += len(fm)
            seen_what = set()
            for case, what in fm:
                res.nontrivial.add(vcommon.case_hash(case))
                if what and what.split(":")[0] not in seen_what and len(seen_what) < 3:
                    seen_what.add(what.split(":")[0])
                    res.violations.append((what, vcommon.save_replay(PROP, case, what)))
        res.nt_count += len(res.nontrivial)
    # valid images of extreme shape: directory chains deep enough to exhaust the stack of a recursive walk (the sanitizer build uses
    # larger frames, the plain build needs about 50000 levels with an 8 MiB stack)
    for sc_ in ([dict(shape="chain", depth=30000), dict(shape="chain", depth=400), dict(shape="chain", depth=4500), dict(shape="chain", depth=60000, variant="plain"),
                 dict(shape="dag", depth=4), dict(shape="dag", depth=12), dict(shape="dag", depth=40),
                 dict(shape="xattrs", range=(60, 130)), dict(shape="xattrs", range=(960, 1030))] if scale >= 0.2 else []):
        res.evaluations += 1
        try:
            ci = check_shape_case(sc_, opts)
            res.nontrivial.add(vcommon.case_hash(sc_))
            for c in ci.classes:
                res.add_class(c)
        except Violation as v:
            if v.sig and v.sig in vcommon.known_active(PROP):
                res.known_hits[v.sig] = v.what
                res.add_class("excluded_known")
                continue
            res.violations.append((str(v), vcommon.save_replay(PROP, sc_, str(v))))
        except Inconclusive:
            res.add_class("shape_inconclusive")
    vcommon.run_corpus(PROP, check_case, opts, res)
    res.rule = ("(d) valid images with 400 / 4500 / 30000 / 60000 nested directories through every tool; (a) coverage-guided libFuzzer (ASan+UBSan) over the reader API as used by the tools, 10 jobs, seeded with Python- and "
                "tool-written images of every compressor and from an empty corpus; non-trivial = input passed sqfs_super_read (counted in the "
                "target: super_ok; tree_ok = full hierarchy decoded); (c) Hypothesis: 1-3 layout fields of a Python-written image set to "
                "boundary/other-object values, directory loops, then rdsquashfs -l/-d/-s/-x/-c/-u, sqfs2tar, sqfsdiff (ASan) with a time "
                "limit; oracle = no sanitizer report/signal, exit status 0/1 (sqfsdiff 0/1/2), termination (timeouts re-run stand-alone)")
    res.samples = ["python-written image + selector byte 0x11 (iterator path)", "gensquashfs -c zstd image + selector 0x1E (tree path, filter flags)",
                   "mutation: ino3.file.size 250 -> 2^32-1 then 'rdsquashfs -s /f03'", "loop: sub/loop -> sub, then sqfs2tar"] + res.samples[:2]
    res.assumptions = ["fuzz campaigns are only approximately reproducible from the seed; the saved artifact is the reproducible unit",
                       "work proportional to sizes an image merely claims (cat/unpack/tar of an enlarged file) is not counted as a hang"]
    res.extra["min_evaluations"] = 1000
    return res


def replay(path):
    vbuild.build("asan")
    vbuild.build("plain")
    if path.endswith(".json"):
        return vcommon.replay_case(PROP, check_case, path)
    binp = vbuild.build_harness("fz_image", "fuzz", ["src/fz_image.c"], extra_ld=["-fsanitize=fuzzer"])
    res = Result(PROP)
    why = confirm_artifact(binp, path)
    if why:
        res.violations.append((why, path))
    return res
