"""C06 - unpacking any image writes only inside the chosen unpack directory.

Images come from the independent writer (lib/sqfswrite.py): directory tables carry arbitrary byte strings as names ('.', '..',
'a/b', '/abs', '../x', embedded NUL, case variants, long names), duplicate names in every type pairing (symlink+dir,
symlink+file, dir+dir, file+file), unsorted listings, symlinks that point at sentinels absolutely and relatively, hard-linked
directories, device/fifo/socket nodes.  rdsquashfs --unpack-path P --unpack-root R runs as root inside a jail directory J that
holds sentinels; a snapshot of J minus R (type, mode, owner, size, mtime, content, link target, xattrs, inode number) taken
before and after must be identical.  If the tool exits 0, every sane, unique entry exists under R with the right type, and
skipped entries were reported.
"""
import os, stat, hashlib, shutil
from hypothesis import strategies as st
import vcommon, vbuild, sqfswrite
from vcommon import Violation, Inconclusive, CaseInfo, Result, Scratch

PROP = "C06"
HOSTILE = [b".", b"..", b"a/b", b"/abs", b"../x", b"../../sentinel_dir", b"..\\x", b"sub/../../esc", b"x\0y", b"\0", b"A", b"a", b"CON", b"nul.txt",
           b"n" * 255, b"n" * 256, b"n" * 300, b"./", b"/", b"//", b" ", b"-rf", b"~", b"$(id)", b"..", b"sentinel_file"]


def targets(jail):
    jb = os.fsencode(jail)
    return [jb + b"/sentinel_dir", jb + b"/sentinel_file", b"../sentinel_dir", b"../../sentinel_dir", b"../sentinel_file", b"/", b"..", b".", b"../..", jb,
            b"../sentinel_link", b"sentinel_dir", jb + b"/sentinel_dir/inner"]


@st.composite
def cases(draw, tier="quick"):
    names = st.one_of(st.sampled_from(HOSTILE), st.tuples(st.sampled_from([b"evil", b"x", b"d", b"f", b"l"]), st.integers(0, 30)).map(lambda t: t[0] + b"%d" % t[1]),
                      st.binary(min_size=2, max_size=6), st.binary(min_size=2, max_size=6))
    benign = draw(st.booleans())
    counter = [0]
    if benign:
        # legal, unique names: the image unpacks, the danger is only in symlink targets, types, flags and the duplicates added below
        names = st.sampled_from([b"evil", b"x", b"d", b"f", b"l", b"n"])
    tsel = st.integers(0, 12)

    def node(depth):
        t = draw(st.sampled_from(["file", "file", "dir", "dir", "slink", "slink", "slink", "chr", "fifo", "sock", "blk"]))
        n = dict(type=t, name=draw(names), mode=draw(st.sampled_from([0o644, 0o755, 0o777, 0o4755, 0o000])), uid=draw(st.sampled_from([0, 12345])),
                 gid=draw(st.sampled_from([0, 54321])), mtime=draw(st.sampled_from([0, 1000000000])))
        if benign:
            counter[0] += 1
            n["name"] += b"_%d" % counter[0]
        if t == "file":
            n["data"] = draw(st.sampled_from([b"PWNED", b"", b"x" * 5000]))
            n["frag"] = True
        elif t == "slink":
            n["target_sel"] = draw(tsel)
        elif t in ("chr", "blk"):
            n["devno"] = draw(st.sampled_from([0x0103, 0x0800]))
        elif t == "dir":
            n["children"] = [node(depth + 1) for _ in range(draw(st.integers(0, 3 if depth < 2 else 0)))]
            n["sort"] = draw(st.booleans())
        if draw(st.sampled_from([False, False, False, True])):
            n["xattrs"] = {b"user.pwn": b"1"}     # any type: extended symlink / device / ipc inodes too
        elif draw(st.sampled_from([False, False, False, True])):
            n["ext"] = True
        return n
    kids = [node(0) for _ in range(draw(st.integers(1, 6)))]
    # the classic: a symlink and a directory (or file) with the same name
    if draw(st.sampled_from([False, False, False, True])):      # (integers(0, k) == 0 is far more frequent than 1/(k+1) inside composites)
        nm = draw(st.sampled_from([b"evil", b"d", b"x"]))
        second = draw(st.sampled_from(["dir", "file"]))
        pair = [dict(type="slink", name=nm, target_sel=draw(tsel), mode=0o777),
                dict(type="dir", name=nm, mode=0o755, children=[dict(type="file", name=b"pwn", data=b"PWNED", frag=True, mode=0o4755)]) if second == "dir"
                else dict(type="file", name=nm, data=b"PWNED", frag=True, mode=0o4755)]
        if draw(st.booleans()):
            pair.reverse()
        kids += pair
    # two directories with the same name: the first plants a symlink, the second one descends through that name
    if draw(st.sampled_from([False, False, False, False, True])):
        nm = draw(st.sampled_from([b"evil", b"d", b"x"]))
        inner = draw(st.sampled_from([b"x", b"lnk"]))
        first = dict(type="dir", name=nm, mode=0o755, children=[dict(type="slink", name=inner, target_sel=draw(tsel), mode=0o777)])
        second = dict(type="dir", name=nm, mode=0o755, children=[
            dict(type="dir", name=inner, mode=0o755, children=[dict(type="file", name=b"pwn", data=b"PWNED", frag=True, mode=0o4755)])
            if draw(st.booleans()) else dict(type="file", name=inner, data=b"PWNED", frag=True, mode=0o4755)])
        pair = [first, second]
        if draw(st.integers(0, 3)) == 0:
            pair.reverse()
        if draw(st.booleans()) and any(k["type"] == "dir" for k in kids):
            next(k for k in kids if k["type"] == "dir")["children"] += pair     # one level down
        else:
            kids += pair
    # stored order: listings that are not sorted keep an arbitrary order, so members of a duplicate pair need not be neighbours
    kids = draw(st.permutations(kids))
    root = dict(type="dir", name=b"", children=list(kids), sort=draw(st.booleans()), mode=0o755)
    flags = draw(st.lists(st.sampled_from(["-C", "-O", "-T", "-X", "-Z", "-q", "-D", "-S", "-F", "-L", "-E"]), unique=True, max_size=6))
    # a second image unpacked into the same directory afterwards: where the first one left a symlink, the second has a directory
    # with contents (what the first unpack created inside R must not become a way out for the second)
    again = None
    if draw(st.sampled_from([False, False, True])):
        again = dict(flags=draw(st.lists(st.sampled_from(["-C", "-O", "-T", "-X", "-q"]), unique=True, max_size=4)), keep_files=draw(st.booleans()))
    return dict(root=root, flags=flags, again=again, upath=draw(st.sampled_from([b"/", b"/", b"/", b"/d", b"/evil", b"/x"])) if again is None else b"/",
                rstyle=draw(st.sampled_from(["abs", "abs", "rel", "rel", "nested", "abs_existing", "is_file", "dangling_link", "link_to_file"])), data_comp=draw(st.booleans()))


def second_image(n, keep_files):
    """the tree of the second image: symlinks of the first become directories with a setuid file and a sub directory inside"""
    m = {k: v for k, v in n.items() if k not in ("children", "target", "target_sel")}
    if n["type"] == "slink":
        m.update(type="dir", mode=0o777, children=[dict(type="file", name=b"pwn2", data=b"PWNED by the second image", frag=True, mode=0o4755),
                                                   dict(type="dir", name=b"sub2", mode=0o777, children=[dict(type="file", name=b"deep2", data=b"x", frag=True, mode=0o666)])])
        m.pop("ext", None)
    elif n["type"] == "dir":
        kids = [second_image(c, keep_files) for c in n.get("children") or [] if keep_files or c["type"] in ("dir", "slink")]
        m["children"] = kids
    return m


def resolve_targets(n, jail):
    tl = targets(jail)
    if n["type"] == "slink":
        n["target"] = tl[n.pop("target_sel") % len(tl)] if "target_sel" in n else n.get("target", b"x")
    for c in n.get("children", []) or []:
        resolve_targets(c, jail)


def snapshot(jail, exclude):
    """state of everything in the jail except the unpack root"""
    res = {}
    jb = os.fsencode(jail)
    ex = os.fsencode(exclude)
    for dp, dn, fn in os.walk(jb):
        if dp == ex or dp.startswith(ex + b"/"):
            dn[:] = []
            continue
        dn[:] = [d for d in dn if os.path.join(dp, d) != ex]
        for name in dn + fn + ([b"."] if dp == jb else []):
            p = os.path.join(dp, name)
            if p == ex:
                continue    # the unpack root itself (it may be a file or a symlink that is in the way)
            try:
                s = os.lstat(p)
            except OSError:
                continue
            rec = [stat.S_IFMT(s.st_mode), stat.S_IMODE(s.st_mode), s.st_uid, s.st_gid, s.st_ino, s.st_nlink if not stat.S_ISDIR(s.st_mode) else 0]
            # the mtime of a directory that (transitively) contains R legitimately changes when R is created
            is_ancestor = ex.startswith(os.path.normpath(p) + b"/")
            if not is_ancestor:
                rec.append(int(s.st_mtime))
            if stat.S_ISREG(s.st_mode):
                rec.append(s.st_size)
                with open(p, "rb") as fh:
                    rec.append(hashlib.sha256(fh.read()).hexdigest())
            elif stat.S_ISLNK(s.st_mode):
                rec.append(os.readlink(p))
            try:
                rec.append(sorted((k, os.getxattr(p, k, follow_symlinks=False)) for k in os.listxattr(p, follow_symlinks=False)))
            except OSError:
                pass
            if stat.S_ISDIR(s.st_mode) and not is_ancestor:
                rec.append(sorted(os.listdir(p)))
            res[os.path.relpath(p, jb)] = rec
    return res


def make_jail(sc):
    J = os.path.join(sc, "jail")
    os.mkdir(J)
    os.mkdir(os.path.join(J, "sentinel_dir"))
    os.mkdir(os.path.join(J, "sentinel_dir", "inner"))
    with open(os.path.join(J, "sentinel_file"), "wb") as fh:
        fh.write(b"sentinel")
    with open(os.path.join(J, "sentinel_dir", "keep"), "wb") as fh:
        fh.write(b"keep")
    os.symlink("sentinel_dir", os.path.join(J, "sentinel_link"))
    os.mkdir(os.path.join(J, "cwd"))
    os.chmod(os.path.join(J, "sentinel_file"), 0o640)
    os.chown(os.path.join(J, "sentinel_file"), 4242, 4343)
    os.chown(os.path.join(J, "sentinel_dir"), 4242, 4343)
    try:
        os.setxattr(os.path.join(J, "sentinel_file"), "user.mark", b"s")
    except OSError:
        pass
    for p in ("sentinel_file", "sentinel_dir/keep", "sentinel_dir/inner", "sentinel_dir"):
        os.utime(os.path.join(J, p), (1111111111, 1111111111))
    return J


def cname(name):
    """the name as the C code sees it (a directory entry name with an embedded NUL ends there)"""
    return name.split(b"\0")[0]


def sane(name):
    name = cname(name)
    return name not in (b".", b"..") and b"/" not in name and len(name) <= 255 and name != b""


def check_case(case, opts):
    with Scratch("c06") as sc:
        J = make_jail(sc)
        root = case["root"]
        import copy
        root = copy.deepcopy(root)
        resolve_targets(root, J)
        try:
            img, _ = sqfswrite.build(root, data_comp=case["data_comp"], pad=4096)
        except Exception as e:
            raise Inconclusive("writer: %r" % e)
        imgp = os.path.join(sc, "img.sqfs")
        with open(imgp, "wb") as fh:
            fh.write(img)
        rs = case["rstyle"]
        cwd = os.path.join(J, "cwd")
        if rs == "abs":
            R = os.path.join(J, "R")
            Rarg = R
        elif rs == "abs_existing":
            R = os.path.join(J, "R")
            os.mkdir(R)
            Rarg = R
        elif rs == "rel":
            R = os.path.join(cwd, "R")
            Rarg = "R"
        elif rs in ("is_file", "dangling_link", "link_to_file"):
            # the unpack root exists but cannot be entered: nothing may be unpacked anywhere else instead
            R = os.path.join(cwd, "R")
            Rarg = "R"
            if rs == "is_file":
                with open(R, "wb") as fh:
                    fh.write(b"not a directory")
            elif rs == "dangling_link":
                os.symlink("nowhere", R)
            else:
                os.symlink("../sentinel_file", R)
        else:
            R = os.path.join(J, "deep", "er", "R")
            Rarg = R
        before = snapshot(J, R)
        cmd = [vcommon.tool("asan", "rdsquashfs"), "-u", case["upath"], "-p", Rarg] + case["flags"] + [imgp]
        r = vcommon.run(cmd, cwd=cwd, timeout=30)
        after = snapshot(J, R)
        what = "rdsquashfs -u %r -p R %s" % (case["upath"], " ".join(case["flags"]))
        if r.timeout:
            raise Violation("%s does not terminate" % what, None, sig="hang")
        san = r.sanitizer()
        if san:
            raise Violation("%s: %s" % (what, san), r.err.decode(errors="replace")[-1500:], sig="crash")
        # the "nested" root's not yet existing parents may be created: they are on the way to R
        if rs == "nested":
            for k in (b"deep", b"deep/er"):
                after.pop(k, None)
                before.pop(k, None)
            # J itself gained 'deep'
            for d in (before, after):
                if b"." in d:
                    d[b"."] = [x for x in d[b"."] if not isinstance(x, list)]
        if before != after:
            ch = [k for k in set(before) | set(after) if before.get(k) != after.get(k)]
            raise Violation("%s changed the file system outside the unpack root: %r" % (what, [(k, before.get(k), after.get(k)) for k in sorted(ch)[:3]]),
                            r.err.decode(errors="replace")[-800:], sig="escape")
        if r.rc not in (0, 1):
            raise Violation("%s: exit status %s" % (what, r.rc), None, sig="odd-status")
        hostile = 0
        classes = ["rc_%d" % r.rc, "rstyle_" + rs]
        if case.get("again") and os.path.isdir(R) and not os.path.islink(R):
            ag = case["again"]
            try:
                img2, _ = sqfswrite.build(second_image(root, ag["keep_files"]), data_comp=case["data_comp"], pad=4096)
            except Exception as e:
                raise Inconclusive("writer (second image): %r" % e)
            imgp2 = os.path.join(sc, "img2.sqfs")
            with open(imgp2, "wb") as fh:
                fh.write(img2)
            nlinks = sum(1 for dp, dn, fn in os.walk(R) for x in dn + fn if os.path.islink(os.path.join(dp, x)))
            r2 = vcommon.run([vcommon.tool("asan", "rdsquashfs"), "-u", "/", "-p", Rarg] + ag["flags"] + [imgp2], cwd=cwd, timeout=30)
            after2 = snapshot(J, R)
            what2 = "a second image unpacked into the same directory (rdsquashfs -u / -p R %s), which holds %d symlinks from the first" % (" ".join(ag["flags"]), nlinks)
            if r2.timeout:
                raise Violation("%s does not terminate" % what2, None, sig="hang")
            if r2.sanitizer():
                raise Violation("%s: %s" % (what2, r2.sanitizer()), r2.err.decode(errors="replace")[-1500:], sig="crash")
            if rs == "nested":
                for k in (b"deep", b"deep/er"):
                    after2.pop(k, None)
                if b"." in after2:
                    after2[b"."] = [x for x in after2[b"."] if not isinstance(x, list)]
            if after != after2:
                ch = [k for k in set(after) | set(after2) if after.get(k) != after2.get(k)]
                raise Violation("%s changed the file system outside the unpack root: %r" % (what2, [(k, after.get(k), after2.get(k)) for k in sorted(ch)[:3]]),
                                r2.err.decode(errors="replace")[-800:], sig="escape-second-image")
            classes.append("second_image_over_%s" % ("symlinks" if nlinks else "no_symlinks"))

        def count(n):
            nonlocal hostile
            for c in n.get("children", []) or []:
                if not sane(c["name"]):
                    hostile += 1
                count(c)
        count(root)
        names = [cname(c["name"]) for c in root["children"]]
        dup = len(names) != len(set(names))
        if dup:
            classes.append("duplicate_names")
        if hostile:
            classes.append("insane_names")
        if r.rc == 0 and case["upath"] == b"/":
            # every sane, unique top level entry exists with the right type (unless filtered by -D/-S/-F/-L/-E)
            tmap = {"dir": stat.S_IFDIR, "file": stat.S_IFREG, "slink": stat.S_IFLNK, "chr": stat.S_IFCHR, "blk": stat.S_IFBLK, "fifo": stat.S_IFIFO, "sock": stat.S_IFSOCK}
            skip = {"-D": ("chr", "blk"), "-S": ("sock",), "-F": ("fifo",), "-L": ("slink",)}
            filtered = set(t for f in case["flags"] for t in skip.get(f, ()))
            for c in root["children"]:
                if not sane(c["name"]) or names.count(cname(c["name"])) > 1 or c["type"] in filtered:
                    continue
                if c["type"] == "dir" and "-E" in case["flags"]:
                    continue
                p = os.path.join(os.fsencode(R), cname(c["name"]))
                try:
                    s = os.lstat(p)
                except OSError:
                    raise Violation("%s exited 0 but %r was not unpacked" % (what, c["name"]), r.err.decode(errors="replace")[-400:], sig="missing-entry")
                if stat.S_IFMT(s.st_mode) != tmap[c["type"]]:
                    raise Violation("%s: %r unpacked with the wrong type" % (what, c["name"]), None, sig="wrong-type")
            # below the top level too: every entry that has a legal, unique name (and is not filtered) is there with the right type,
            # and regular files have their contents - an illegal sibling must not take the rest of the directory with it
            def verify(dnode, fsdir, rel):
                nm = [cname(c["name"]) for c in dnode.get("children") or []]
                for c in dnode.get("children") or []:
                    if not sane(c["name"]) or nm.count(cname(c["name"])) > 1 or c["type"] in filtered:
                        continue
                    pth = os.path.join(fsdir, cname(c["name"]))
                    try:
                        st_ = os.lstat(pth)
                    except OSError:
                        if c["type"] == "dir" and "-E" in case["flags"]:
                            continue
                        raise Violation("%s exited 0 but %r was not unpacked" % (what, rel + cname(c["name"])), r.err.decode(errors="replace")[-400:], sig="missing-entry")
                    if stat.S_IFMT(st_.st_mode) != tmap[c["type"]]:
                        raise Violation("%s: %r unpacked with the wrong type" % (what, rel + cname(c["name"])), None, sig="wrong-type")
                    if c["type"] == "file":
                        with open(pth, "rb") as fh:
                            got = fh.read()
                        if got != c.get("data", b""):
                            raise Violation("%s exited 0 but %r has %d of %d bytes / other contents" % (what, rel + cname(c["name"]), len(got), len(c.get("data", b""))),
                                            r.err.decode(errors="replace")[-300:], sig="content-missing")
                    elif c["type"] == "dir":
                        verify(c, pth, rel + cname(c["name"]) + b"/")
            verify(root, os.fsencode(R), b"")
            if hostile and not r.err.strip() and "-q" not in case["flags"]:
                insane_top = [c["name"] for c in root["children"] if not sane(c["name"]) and c["name"] not in (b"",) and c["type"] not in filtered
                              and not (c["type"] == "dir" and "-E" in case["flags"])]
                if insane_top and all(len(n) <= 255 for n in insane_top):
                    raise Violation("%s skipped entries with illegal names without reporting them" % what, None, sig="silent-skip")
        created = os.path.isdir(R) and len(os.listdir(R)) > 0
        return CaseInfo(bool((hostile or dup or any(c["type"] == "slink" for c in root["children"])) and (created or r.err.strip())), classes)


def strat(tier, opts):
    return cases(tier)


def main(tier, seed, scale=1.0):
    vbuild.build("asan")
    n = int((8000 if tier == "quick" else 120000) * scale)
    res = Result(PROP)
    opts = {"prop": PROP}
    vcommon.run_corpus(PROP, check_case, opts, res)
    for d in vcommon.run_shards("c06", "check_case", "strat", n, seed, tier, opts):
        res.merge_shard(d)
    res.rule = ("Hypothesis images from the independent writer: names from {'.', '..', 'a/b', '/abs', '../x', NUL, case variants, 255/256/300 byte "
                "names, random bytes}, duplicate names (symlink+dir, symlink+file, ...), unsorted listings, symlinks aimed at sentinels "
                "(absolute and relative), all inode types x option subsets of -C -O -T -X -Z -q -D -S -F -L -E x unpack path x unpack root "
                "(absolute, relative, nested, existing); non-trivial = a hostile feature is present and the tool created something or reported a "
                "skip; oracle = snapshot of the jail minus R identical before/after; exit 0 => sane unique entries exist with the right type")
    res.assumptions = ["runs as root; the jail snapshot covers type, mode, owner, inode number, link count, mtime, size, content, link target, xattrs, directory listings"]
    res.extra["min_evaluations"] = n // 3
    return res


def replay(path):
    vbuild.build("asan")
    return vcommon.replay_case(PROP, check_case, path)
