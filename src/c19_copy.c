/* c19_copy - copies of libsquashfs objects are independent, equivalent and safely destroyable (C19).
 *
 *   c19_copy <image> <ops-file>
 * ops-file:
 *   pre <op> <args>      reader operation (same vocabulary as c10_hist) applied to the ORIGINAL reader objects before copying
 *   copy                 every reader object (file, compressor, id table, dir reader, data reader, xattr reader, meta reader)
 *                        is duplicated with sqfs_copy(); a TWIN set is built by replaying the 'pre' history on fresh objects
 *   o <op> <args>        operation on the original only (must not influence the copy)
 *   c <op> <args>        operation on the copy AND on the twin: answers must be equal
 *   drop o|c             release the original / the copy (each object of the set); later operations on the survivor continue
 *   cz <id> <level> <seed> <size> <order>   compressor: create, compress once, copy, compress the same block with both,
 *                        results equal and each round-trips; release in the given order (0: original first)
 *   xw <seed> <npre> <nmid> <npost> <order>  xattr writer: npre sets, copy, nmid sets on the original only, release per
 *                        order, npost sets on the survivor(s); flushed bytes of the copy == flushed bytes of a twin writer
 * Output "MISMATCH ..." (exit 3) or "OK <n>".
 */
#include <sys/resource.h>
#include <fcntl.h>
#include <unistd.h>
#define main c10_main
#include "c10_hist.c"
#undef main

#include "sqfs/xattr_writer.h"
#include "sqfs/frag_table.h"

/* ---- growable memory file for the xattr writer */
typedef struct {
	sqfs_file_t base;
	unsigned char *data;
	size_t size, cap;
} gfile_t;

static int g_read_at(sqfs_file_t *f, sqfs_u64 off, void *buf, size_t size)
{
	gfile_t *g = (gfile_t *)f;
	if (off + size > g->size)
		return SQFS_ERROR_OUT_OF_BOUNDS;
	memcpy(buf, g->data + off, size);
	return 0;
}

static int g_write_at(sqfs_file_t *f, sqfs_u64 off, const void *buf, size_t size)
{
	gfile_t *g = (gfile_t *)f;
	if (off + size > g->cap) {
		g->cap = (off + size) * 2 + 4096;
		g->data = realloc(g->data, g->cap);
	}
	if (off > g->size)
		memset(g->data + g->size, 0, off - g->size);
	memcpy(g->data + off, buf, size);
	if (off + size > g->size)
		g->size = off + size;
	return 0;
}

static sqfs_u64 g_get_size(const sqfs_file_t *f) { return ((const gfile_t *)f)->size; }
static int g_truncate(sqfs_file_t *f, sqfs_u64 s) { ((gfile_t *)f)->size = s; return 0; }
static const char *g_name(sqfs_file_t *f) { (void)f; return "mem"; }
static void g_destroy(sqfs_object_t *o) { free(((gfile_t *)o)->data); free(o); }

static sqfs_file_t *gfile_create(void)
{
	gfile_t *g = calloc(1, sizeof(*g));
	sqfs_object_init(g, g_destroy, NULL);
	((sqfs_file_t *)g)->read_at = g_read_at;
	((sqfs_file_t *)g)->write_at = g_write_at;
	((sqfs_file_t *)g)->get_size = g_get_size;
	((sqfs_file_t *)g)->truncate = g_truncate;
	((sqfs_file_t *)g)->get_filename = g_name;
	return (sqfs_file_t *)g;
}

static unsigned long long prng(unsigned long long *s)
{
	*s ^= *s << 13;
	*s ^= *s >> 7;
	*s ^= *s << 17;
	return *s;
}

static void add_sets(sqfs_xattr_writer_t *w, unsigned long long seed, int first, int count)
{
	for (int i = first; i < first + count; ++i) {
		unsigned long long s = seed * 1000003ULL + i * 7919ULL + 1;
		sqfs_u32 idx;
		int nk = 1 + prng(&s) % 3;
		sqfs_xattr_writer_begin(w, 0);
		for (int k = 0; k < nk; ++k) {
			char key[64], val[300];
			int vl = prng(&s) % 4 == 0 ? 200 : (int)(prng(&s) % 20);
			snprintf(key, sizeof(key), "%s.k%llu", (prng(&s) & 1) ? "user" : "trusted", prng(&s) % 6);
			memset(val, 'a' + (int)(prng(&s) % 3), sizeof(val));
			sqfs_xattr_writer_add_kv(w, key, val, vl);
		}
		sqfs_xattr_writer_end(w, &idx);
	}
}

static uint64_t flush_digest(sqfs_xattr_writer_t *w, size_t *len)
{
	sqfs_file_t *f = gfile_create();
	sqfs_compressor_config_t cfg;
	sqfs_compressor_t *cmp = NULL;
	sqfs_super_t super;
	uint64_t h = H0;

	sqfs_super_init(&super, 4096, 0, SQFS_COMP_GZIP);
	sqfs_compressor_config_init(&cfg, SQFS_COMP_GZIP, 4096, 0);
	sqfs_compressor_create(&cfg, &cmp);
	sqfs_super_write(&super, f);
	if (sqfs_xattr_writer_flush(w, f, &super, cmp) != 0)
		h = 1;
	else
		h = fnv(h, ((gfile_t *)f)->data, ((gfile_t *)f)->size);
	*len = ((gfile_t *)f)->size;
	sqfs_drop(cmp);
	sqfs_drop(f);
	return h;
}

static int do_xw(char *args)
{
	unsigned long long seed;
	int npre, nmid, npost, order;
	sqfs_xattr_writer_t *orig, *copy, *twin;
	size_t l1, l2;
	uint64_t d1, d2;

	if (sscanf(args, "%llu %d %d %d %d", &seed, &npre, &nmid, &npost, &order) != 5)
		return 0;
	orig = sqfs_xattr_writer_create(0);
	twin = sqfs_xattr_writer_create(0);
	add_sets(orig, seed, 0, npre);
	add_sets(twin, seed, 0, npre);
	copy = sqfs_copy(orig);
	if (copy == NULL) {
		printf("MISMATCH xattr writer cannot be copied\n");
		return 3;
	}
	add_sets(orig, seed + 99, 1000, nmid);        /* only the original sees these */
	if (order == 0) {
		sqfs_drop(orig);
		orig = NULL;
	}
	add_sets(copy, seed, npre, npost);
	add_sets(twin, seed, npre, npost);
	d1 = flush_digest(copy, &l1);
	d2 = flush_digest(twin, &l2);
	if (d1 != d2 || l1 != l2) {
		printf("MISMATCH xattr writer copy flushes %zu bytes (%016" PRIx64 "), a writer with the same history %zu bytes (%016" PRIx64 ")\n", l1, d1, l2, d2);
		return 3;
	}
	if (order == 0) {
		sqfs_drop(copy);
	} else {
		sqfs_drop(copy);
		add_sets(orig, seed, 2000, 2);
		flush_digest(orig, &l1);
		sqfs_drop(orig);
	}
	sqfs_drop(twin);
	return 0;
}

/* present only in the allocfault build */
extern void verif_alloc_arm(long k) __attribute__((weak));
extern long verif_alloc_disarm(void) __attribute__((weak));

/* the copy of an xattr writer runs out of memory at its k-th allocation: the original must go on like a writer that was never copied */
static int do_xwfail(char *args)
{
	unsigned long long seed;
	int npre, npost;
	long k, seen = 0;
	sqfs_xattr_writer_t *orig, *copy, *twin;
	size_t l1, l2;
	uint64_t d1, d2;

	if (sscanf(args, "%llu %d %ld %d", &seed, &npre, &k, &npost) != 4)
		return 0;
	orig = sqfs_xattr_writer_create(0);
	twin = sqfs_xattr_writer_create(0);
	add_sets(orig, seed, 0, npre);
	add_sets(twin, seed, 0, npre);
	if (verif_alloc_arm)
		verif_alloc_arm(k);
	copy = sqfs_copy(orig);
	if (verif_alloc_disarm)
		seen = verif_alloc_disarm();
	printf("FAILCOPY k=%ld allocations=%ld delivered=%d\n", k, seen < 0 ? -seen : seen, seen < 0);
	if (copy != NULL)
		sqfs_drop(copy);
	add_sets(orig, seed, npre, npost);
	add_sets(twin, seed, npre, npost);
	d1 = flush_digest(orig, &l1);
	d2 = flush_digest(twin, &l2);
	if (d1 != d2 || l1 != l2) {
		printf("MISMATCH after a failed copy the xattr writer flushes %zu bytes (%016" PRIx64 "), a writer with the same history %zu bytes (%016" PRIx64 ")\n", l1, d1, l2, d2);
		return 3;
	}
	sqfs_drop(orig);
	sqfs_drop(twin);
	return 0;
}

/* non-default but valid compressor options, selected by sel (0 = defaults) */
static void vary_cfg(sqfs_compressor_config_t *cfg, int sel)
{
	if (sel <= 0)
		return;
	switch (cfg->id) {
	case SQFS_COMP_GZIP:
		cfg->level = 1 + sel % 9;
		cfg->opt.gzip.window_size = 9 + (sel / 9) % 7;
		if ((sel / 63) % 2)
			cfg->flags |= (sel / 126) % 0x20;
		break;
	case SQFS_COMP_XZ:
	case SQFS_COMP_LZMA:
		cfg->level = sel % 10;
		cfg->opt.xz.lc = (sel / 10) % 5;
		cfg->opt.xz.lp = (sel / 50) % (5 - cfg->opt.xz.lc);
		cfg->opt.xz.pb = (sel / 250) % 5;
		cfg->opt.xz.dict_size = 8192u << ((sel / 1250) % 4);
		if (cfg->id == SQFS_COMP_XZ)
			cfg->flags |= (sel / 5000) % 2 ? SQFS_COMP_FLAG_XZ_X86 : ((sel / 10000) % 2 ? SQFS_COMP_FLAG_XZ_EXTREME : 0);
		else if ((sel / 5000) % 2)
			cfg->flags |= SQFS_COMP_FLAG_LZMA_EXTREME;
		break;
	case SQFS_COMP_LZ4:
		if (sel % 2)
			cfg->flags |= SQFS_COMP_FLAG_LZ4_HC;
		break;
	case SQFS_COMP_ZSTD:
		cfg->level = 1 + sel % 22;
		break;
	default:
		break;
	}
}

static int do_cz(char *args)
{
	int id, level, order, ro = 0;
	unsigned long long seed;
	unsigned long size;
	sqfs_compressor_config_t cfg, ucfg;
	sqfs_compressor_t *c1 = NULL, *c2 = NULL, *u1 = NULL, *u2 = NULL;
	unsigned char *in, *o1, *o2, *back;
	sqfs_s32 r1, r2, r0;

	if (sscanf(args, "%d %d %llu %lu %d %d", &id, &level, &seed, &size, &order, &ro) < 5)
		return 0;
	if (size < 16 || size > 65536)
		size = 4096;
	if (sqfs_compressor_config_init(&cfg, id, 65536, 0) != 0)
		return 0;
	vary_cfg(&cfg, level);
	if (sqfs_compressor_create(&cfg, &c1) != 0) {
		printf("SKIP compressor %d rejects option set %d\n", id, level);
		return 0;
	}
	sqfs_compressor_config_init(&ucfg, id, 65536, SQFS_COMP_FLAG_UNCOMPRESS);
	vary_cfg(&ucfg, level);
	if (sqfs_compressor_create(&ucfg, &u1) != 0) {
		sqfs_drop(c1);
		return 0;
	}
	in = malloc(size);
	o1 = malloc(size);
	o2 = malloc(size);
	back = malloc(size);
	for (unsigned long i = 0; i < size; ++i)
		in[i] = (prng(&seed) % 5 == 0) ? (unsigned char)prng(&seed) : (unsigned char)('a' + i % 7);
	if (ro != 0) {
		/* history: options read from an image (written by a compressor with option set ro; ro < 0: a gzip record with
		   an unsupported window size).  Whatever read_options answers, original and copy have to agree afterwards. */
		sqfs_file_t *f = gfile_create();
		sqfs_super_t super;
		sqfs_super_init(&super, 65536, 0, id);
		sqfs_super_write(&super, f);
		if (ro > 0) {
			sqfs_compressor_config_t bcfg;
			sqfs_compressor_t *b = NULL;
			sqfs_compressor_config_init(&bcfg, id, 65536, 0);
			vary_cfg(&bcfg, ro);
			if (sqfs_compressor_create(&bcfg, &b) == 0) {
				b->write_options(b, f);
				sqfs_drop(b);
			}
		} else {
			unsigned char rec[10] = { 8, 0x80, 5, 0, 0, 0, 20, 0, 0, 0 };
			f->write_at(f, sizeof(super), rec, sizeof(rec));
		}
		printf("READOPT c=%d u=%d\n", c1->read_options(c1, f), u1->read_options(u1, f));
		sqfs_drop(f);
	}
	r0 = c1->do_block(c1, in, size, o1, size);     /* history before the copy */
	c2 = sqfs_copy(c1);
	u2 = sqfs_copy(u1);
	if (c2 == NULL || u2 == NULL) {
		printf("MISMATCH compressor %d cannot be copied\n", id);
		return 3;
	}
	{
		/* the copy reports the configuration of the original */
		sqfs_compressor_config_t g1, g2;
		memset(&g1, 0, sizeof(g1));
		memset(&g2, 0, sizeof(g2));
		c1->get_configuration(c1, &g1);
		c2->get_configuration(c2, &g2);
		if (g1.id != g2.id || g1.flags != g2.flags || g1.block_size != g2.block_size || g1.level != g2.level ||
		    memcmp(&g1.opt, &g2.opt, sizeof(g1.opt)) != 0) {
			printf("MISMATCH compressor %d (options %d): the copy reports a different configuration\n", id, level);
			return 3;
		}
	}
	r1 = c1->do_block(c1, in, size, o1, size);
	r2 = c2->do_block(c2, in, size, o2, size);
	if (r1 != r2 || r1 != r0 || (r1 > 0 && memcmp(o1, o2, r1) != 0)) {
		printf("MISMATCH compressor %d: copy compresses to %d bytes, original to %d (before the copy: %d)\n", id, r2, r1, r0);
		return 3;
	}
	if (order == 0) {
		sqfs_drop(c1);
		sqfs_drop(u1);
		c1 = u1 = NULL;
	} else {
		sqfs_drop(c2);
		sqfs_drop(u2);
		c2 = u2 = NULL;
	}
	{
		sqfs_compressor_t *c = c1 ? c1 : c2, *u = u1 ? u1 : u2;
		r2 = c->do_block(c, in, size, o2, size);
		if (r2 != r1) {
			printf("MISMATCH compressor %d: survivor compresses to %d bytes, expected %d\n", id, r2, r1);
			return 3;
		}
		if (r2 > 0) {
			sqfs_s32 b = u->do_block(u, o2, r2, back, size);
			if (b != (sqfs_s32)size || memcmp(back, in, size) != 0) {
				printf("MISMATCH compressor %d: survivor does not round trip (%d)\n", id, b);
				return 3;
			}
		}
		sqfs_drop(c);
		sqfs_drop(u);
	}
	free(in);
	free(o1);
	free(o2);
	free(back);
	return 0;
}

/* Every object of the copied set is referenced by nobody but the harness (copied readers hold references to the ORIGINAL's file
 * and compressor, not to the copies of them): releasing it once must run its destroy hook exactly once - a copy that inherited
 * the original's reference count would stay alive for ever */
static int g_destroy_calls;
static void (*g_real_destroy)(sqfs_object_t *);

static void counting_destroy(sqfs_object_t *o)
{
	g_destroy_calls += 1;
	g_real_destroy(o);
}

static int drop_checked(void *obj, const char *what)
{
	sqfs_object_t *o = obj;

	if (o == NULL)
		return 0;
	g_real_destroy = o->destroy;
	g_destroy_calls = 0;
	o->destroy = counting_destroy;
	sqfs_drop(o);
	if (g_destroy_calls != 1) {
		printf("MISMATCH 0 drop: releasing the copy of the %s ran its destroy hook %d times (a copy starts with one reference of its own)\n", what, g_destroy_calls);
		if (g_destroy_calls == 0)
			o->destroy = g_real_destroy;
		return -1;
	}
	return 0;
}

static int rset_close_copy(rset_t *r)
{
	int bad = 0;

	bad |= drop_checked(r->mr, "meta reader");
	bad |= drop_checked(r->dmr, "meta reader (directory table)");
	bad |= drop_checked(r->xr, "xattr reader");
	bad |= drop_checked(r->data, "data reader");
	bad |= drop_checked(r->dr, "dir reader");
	bad |= drop_checked(r->idtbl, "id table");
	bad |= drop_checked(r->cmp, "compressor");
	bad |= drop_checked(r->file, "file");
	memset(r, 0, sizeof(*r));
	return bad;
}

static int copy_set(rset_t *dst, const rset_t *src)
{
	memset(dst, 0, sizeof(*dst));
	dst->super = src->super;
	dst->file = sqfs_copy(src->file);
	dst->cmp = sqfs_copy(src->cmp);
	dst->idtbl = sqfs_copy(src->idtbl);
	dst->dr = sqfs_copy(src->dr);
	dst->data = sqfs_copy(src->data);
	dst->xr = src->xr ? sqfs_copy(src->xr) : NULL;
	dst->mr = sqfs_copy(src->mr);
	dst->dmr = sqfs_copy(src->dmr);
	/* the low-level directory cursor is a plain structure: a by-value copy continues where the original stands */
	dst->cur = src->cur;
	dst->cur_ref = src->cur_ref;
	dst->cur_used = src->cur_used;
	dst->cur_valid = src->cur_valid;
	if (!dst->dmr)
		return -1;
	if (!dst->file || !dst->cmp || !dst->idtbl || !dst->dr || !dst->data || !dst->mr || (src->xr && !dst->xr))
		return -1;
	dst->ok = 1;
	return 0;
}

int main(int argc, char **argv)
{
	int o_vs_twin = 0;
	rset_t O, C, T;
	FILE *f;
	char line[8192];
	char *pre[512];
	int npre = 0, have_copy = 0, o_alive = 1, c_alive = 0;
	long n = 0, lineno = 0;

	if (argc < 3)
		return 2;
	if (getenv("VERIF_DIR_READER_FLAGS"))
		g_dir_reader_flags = (unsigned int)strtoul(getenv("VERIF_DIR_READER_FLAGS"), NULL, 0);
	if (rset_open(&O, argv[1]) != 0) {
		puts("UNREADABLE");
		return 0;
	}
	memset(&C, 0, sizeof(C));
	memset(&T, 0, sizeof(T));
	f = fopen(argv[2], "r");
	if (f == NULL)
		return 2;
	while (fgets(line, sizeof(line), f) != NULL) {
		char *nl = strchr(line, '\n'), *rest, *op, *args;
		++lineno;
		if (nl)
			*nl = '\0';
		if (line[0] == '\0' || line[0] == '#')
			continue;
		rest = strchr(line, ' ');
		if (rest)
			*(rest++) = '\0';
		else
			rest = line + strlen(line);
		++n;
		if (!strcmp(line, "cz")) {
			int r = do_cz(rest);
			if (r)
				return r;
			continue;
		}
		if (!strcmp(line, "xw")) {
			int r = do_xw(rest);
			if (r)
				return r;
			continue;
		}
		if (!strcmp(line, "xwfail")) {
			int r = do_xwfail(rest);
			if (r)
				return r;
			continue;
		}
		if (!strcmp(line, "failcopy")) {
			/* copy every object while the k-th allocation fails; whatever was copied is released at once; from here on
			   the ORIGINAL is compared with a twin that has the same history: a failed (or released) copy must not
			   have touched it */
			long k = strtol(rest, NULL, 10), seen = 0;
			if (have_copy || !o_alive || o_vs_twin)
				continue;
			if (k < 0) {
				/* no file descriptor is left while copying: dup() of the file object fails */
				struct rlimit old, lim;
				int fd = open("/dev/null", O_RDONLY);
				getrlimit(RLIMIT_NOFILE, &old);
				lim = old;
				if (fd >= 0) {
					close(fd);
					lim.rlim_cur = fd;
					setrlimit(RLIMIT_NOFILE, &lim);
				}
				copy_set(&C, &O);
				setrlimit(RLIMIT_NOFILE, &old);
				seen = C.file == NULL ? -1 : 1;
			} else {
				if (verif_alloc_arm)
					verif_alloc_arm(k);
				copy_set(&C, &O);
				if (verif_alloc_disarm)
					seen = verif_alloc_disarm();
			}
			rset_close(&C);
			printf("FAILCOPY k=%ld allocations=%ld delivered=%d\n", k, seen < 0 ? -seen : seen, seen < 0);
			if (rset_open(&T, argv[1]) != 0)
				return 2;
			for (int i = 0; i < npre; ++i) {
				char *cp = strdup(pre[i]), *a = strchr(cp, ' ');
				if (a)
					*(a++) = '\0';
				else
					a = cp + strlen(cp);
				do_op(&T, cp, a);
				free(cp);
			}
			o_vs_twin = 1;
			continue;
		}
		if (!strcmp(line, "copy")) {
			if (have_copy || !o_alive || o_vs_twin)
				continue;
			if (copy_set(&C, &O) != 0) {
				printf("MISMATCH %ld an object of the reader set cannot be copied\n", lineno);
				return 3;
			}
			if (rset_open(&T, argv[1]) != 0)
				return 2;
			for (int i = 0; i < npre; ++i) {
				char *cp = strdup(pre[i]), *a = strchr(cp, ' ');
				if (a)
					*(a++) = '\0';
				else
					a = cp + strlen(cp);
				do_op(&T, cp, a);
				free(cp);
			}
			have_copy = c_alive = 1;
			continue;
		}
		if (!strcmp(line, "drop")) {
			if (rest[0] == 'o' && o_alive) {
				rset_close(&O);
				o_alive = 0;
			} else if (rest[0] == 'c' && c_alive) {
				if (rset_close_copy(&C))
					return 3;
				c_alive = 0;
			}
			continue;
		}
		op = rest;
		args = strchr(op, ' ');
		if (args)
			*(args++) = '\0';
		else
			args = op + strlen(op);
		if (!strcmp(line, "pre")) {
			if (have_copy || !o_alive)
				continue;
			if (npre < 512) {
				char buf[8300];
				snprintf(buf, sizeof(buf), "%s %s", op, args);
				pre[npre++] = strdup(buf);
			}
			{
				char *cp = strdup(args);
				do_op(&O, op, cp);
				free(cp);
			}
		} else if (!strcmp(line, "o")) {
			if (o_alive && o_vs_twin) {
				char *c1 = strdup(args), *c2 = strdup(args);
				res_t a = do_op(&O, op, c1);
				res_t b = do_op(&T, op, c2);
				free(c1);
				free(c2);
				if (a.status != b.status || a.digest != b.digest) {
					printf("MISMATCH %ld %s %s: original after a failed / released copy=%d:%016llx twin=%d:%016llx\n", lineno, op, args,
					       a.status, (unsigned long long)a.digest, b.status, (unsigned long long)b.digest);
					return 3;
				}
			} else if (o_alive) {
				char *cp = strdup(args);
				do_op(&O, op, cp);
				free(cp);
			}
		} else if (!strcmp(line, "c")) {
			if (c_alive) {
				char *c1 = strdup(args), *c2 = strdup(args);
				res_t a = do_op(&C, op, c1);
				res_t b = do_op(&T, op, c2);
				free(c1);
				free(c2);
				if (a.status != b.status || a.digest != b.digest) {
					printf("MISMATCH %ld %s %s copy=%d:%016" PRIx64 " twin=%d:%016" PRIx64 "\n", lineno, op, args, a.status, a.digest, b.status, b.digest);
					return 3;
				}
			}
		}
	}
	fclose(f);
	if (o_alive)
		rset_close(&O);
	if (c_alive && rset_close_copy(&C))
		return 3;
	if (have_copy)
		rset_close(&T);
	for (int i = 0; i < npre; ++i)
		free(pre[i]);
	printf("OK %ld\n", n);
	return 0;
}
