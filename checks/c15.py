"""C15 - stream compression of tar input/output is transparent.

tar2sqfs must produce the same image from an archive whether plain or wrapped in gzip/xz/zstd/bzip2
(single stream, concatenated members, any pipe chunking); truncated or corrupted compressed input must be
refused (or, where the damage is invisible to the codec, give the unchanged image) - never a different
image with exit 0, never a hang.  sqfs2tar -c X must emit what the reference decompressor expands to the
plain sqfs2tar output.  Compressed inputs come from reference compressors (Python zlib/lzma/bz2, libzstd).
"""
import os, zlib, lzma, bz2, ctypes, hashlib, subprocess, threading, time
from hypothesis import strategies as st
import vcommon, vbuild, treemodel, tarimg, sqfsimg
from vcommon import Violation, Inconclusive, CaseInfo, Result, Scratch
import c04

PROP = "C15"
CODECS = ["gzip", "xz", "zstd", "bzip2"]

_zs = None


def _zstd():
    global _zs
    if _zs is None:
        z = ctypes.CDLL("libzstd.so.1")
        z.ZSTD_createCCtx.restype = ctypes.c_void_p
        z.ZSTD_freeCCtx.argtypes = [ctypes.c_void_p]
        z.ZSTD_CCtx_setParameter.argtypes = [ctypes.c_void_p, ctypes.c_int, ctypes.c_int]
        z.ZSTD_CCtx_setParameter.restype = ctypes.c_size_t
        z.ZSTD_compress2.argtypes = [ctypes.c_void_p, ctypes.c_void_p, ctypes.c_size_t, ctypes.c_void_p, ctypes.c_size_t]
        z.ZSTD_compress2.restype = ctypes.c_size_t
        z.ZSTD_compressBound.restype = ctypes.c_size_t
        z.ZSTD_compressBound.argtypes = [ctypes.c_size_t]
        z.ZSTD_isError.argtypes = [ctypes.c_size_t]
        z.ZSTD_decompressStream
        _zs = z
    return _zs


def zstd_compress(data, level):
    z = _zstd()
    c = z.ZSTD_createCCtx()
    z.ZSTD_CCtx_setParameter(c, 100, level)   # ZSTD_c_compressionLevel
    z.ZSTD_CCtx_setParameter(c, 201, 1)       # ZSTD_c_checksumFlag
    cap = z.ZSTD_compressBound(len(data))
    buf = ctypes.create_string_buffer(cap)
    n = z.ZSTD_compress2(c, buf, cap, data, len(data))
    z.ZSTD_freeCCtx(c)
    if z.ZSTD_isError(n):
        raise RuntimeError("zstd")
    return buf.raw[:n]


def zstd_decompress_all(data):
    """decompress concatenated zstd frames (streaming API through ctypes)"""
    z = ctypes.CDLL("libzstd.so.1")
    z.ZSTD_getFrameContentSize.restype = ctypes.c_ulonglong
    z.ZSTD_getFrameContentSize.argtypes = [ctypes.c_void_p, ctypes.c_size_t]
    z.ZSTD_findFrameCompressedSize.restype = ctypes.c_size_t
    z.ZSTD_findFrameCompressedSize.argtypes = [ctypes.c_void_p, ctypes.c_size_t]
    z.ZSTD_decompress.restype = ctypes.c_size_t
    z.ZSTD_decompress.argtypes = [ctypes.c_void_p, ctypes.c_size_t, ctypes.c_void_p, ctypes.c_size_t]
    out = []
    pos = 0
    # sqfs2tar streams a single frame without content size: decode with the streaming API
    class Buf(ctypes.Structure):
        _fields_ = [("p", ctypes.c_void_p), ("size", ctypes.c_size_t), ("pos", ctypes.c_size_t)]
    z.ZSTD_createDStream.restype = ctypes.c_void_p
    z.ZSTD_decompressStream.restype = ctypes.c_size_t
    z.ZSTD_decompressStream.argtypes = [ctypes.c_void_p, ctypes.POINTER(Buf), ctypes.POINTER(Buf)]
    z.ZSTD_freeDStream.argtypes = [ctypes.c_void_p]
    ds = z.ZSTD_createDStream()
    src = ctypes.create_string_buffer(data, len(data))
    inb = Buf(ctypes.cast(src, ctypes.c_void_p), len(data), 0)
    dst = ctypes.create_string_buffer(1 << 17)
    last = 1
    while inb.pos < inb.size or last != 0:
        ob = Buf(ctypes.cast(dst, ctypes.c_void_p), 1 << 17, 0)
        last = z.ZSTD_decompressStream(ds, ctypes.byref(ob), ctypes.byref(inb))
        if z.ZSTD_isError(last):
            z.ZSTD_freeDStream(ds)
            raise ValueError("zstd stream error")
        out.append(dst.raw[:ob.pos])
        if inb.pos >= inb.size and ob.pos == 0:
            break
    z.ZSTD_freeDStream(ds)
    if last != 0:
        raise ValueError("zstd stream truncated")
    return b"".join(out)


def compress(codec, data, level):
    if codec == "gzip":
        c = zlib.compressobj(max(1, min(level, 9)), zlib.DEFLATED, 31)
        return c.compress(data) + c.flush()
    if codec == "xz":
        return lzma.compress(data, format=lzma.FORMAT_XZ, check=lzma.CHECK_CRC32 if level % 2 else lzma.CHECK_CRC64, preset=min(level, 6))
    if codec == "bzip2":
        return bz2.compress(data, max(1, min(level, 9)))
    return zstd_compress(data, level)


def decompress_ref(codec, data):
    if codec == "gzip":
        out = b""
        while data:
            d = zlib.decompressobj(31)
            out += d.decompress(data)
            if not d.eof:
                raise ValueError("gzip truncated")
            data = d.unused_data
        return out
    if codec == "xz":
        return lzma.decompress(data, format=lzma.FORMAT_XZ)
    if codec == "bzip2":
        return bz2.decompress(data)
    return zstd_decompress_all(data)


@st.composite
def cases(draw, tier="quick"):
    B = 4096
    big = draw(st.integers(0, 7)) == 0
    ar = draw(tarimg.archives(B=B, max_entries=8))
    if big:
        # make the plain archive cross the 256 KiB decoder buffer / 128 KiB file buffer boundaries
        sz = draw(st.sampled_from([131072 - 1024, 131072, 262144 - 1536, 262144 - 1024, 262144, 262144 + 512, 600000]))
        kind = draw(st.sampled_from(["rand", "text"]))
        ar["entries"].append(dict(name=b"zz-big", type="file", mode=0o644, uid=0, gid=0, mtime=5, xattrs={},
                                  data=treemodel.content_bytes((kind, 7, 0, sz), B), enc=dict(fmt="ustar", num="octal", ostyle=0)))
    codec = draw(st.sampled_from(CODECS))
    level = draw(st.integers(1, 9))
    nsplit = draw(st.sampled_from([0, 0, 1, 2, 5]))
    splits = sorted(draw(st.lists(st.floats(0, 1), min_size=nsplit, max_size=nsplit)))
    trailing = draw(st.sampled_from(["none", "none", "none", "zeros512", "zeros7", "garbage"]))
    chunk = draw(st.sampled_from([0, 0, 1, 7, 511, 512, 513, 4096, 65536]))
    damage = draw(st.lists(st.tuples(st.sampled_from(["trunc", "truncm", "flip", "zero", "dup"]), st.floats(0, 1), st.integers(0, 255)), min_size=0, max_size=3))
    o = dict(comp=draw(st.sampled_from(["gzip", "zstd", "lz4"])), B=B, no_keep_time=False, no_xattr=False, no_skip=False, T=False, e=False,
             j=draw(st.sampled_from([None, 1, 2])), defaults={}, source_date_epoch=None)
    # empty members (a compressed stream of zero bytes) at the start / exactly at tar record boundaries, where the reader has used up
    # everything decoded so far and asks for a new header; and short counts on the reads of the compressed input
    empties = draw(st.lists(st.floats(0, 1), min_size=0, max_size=draw(st.sampled_from([0, 0, 1, 2, 3]))))
    short_reads = draw(st.sampled_from([0, 0, 0, 1, 2, 3]))
    s2t_codec = draw(st.sampled_from(CODECS))
    # sqfs2tar output padded (by one extra file) to land on / next to a multiple of the 256 KiB buffer of the compressing output stream
    s2t_pad = draw(st.sampled_from([None, None, None, None, 0, 0, 0, -512, 512, 131072]))
    # the end-of-archive marker is the last thing inside a 256 KiB window of decoded data and the stream goes on behind it (zero
    # padding, check sums): a reader that stops at the marker never decodes the end of the stream
    tailwin = None
    if draw(st.sampled_from([0, 0, 0, 1])):
        tailwin = (draw(st.sampled_from([1, 1, 2])), draw(st.sampled_from([2, 18, 18, 40])), draw(st.floats(0, 1)), draw(st.integers(0, 511)))
        ar["end_marker"] = True
        damage = damage + [("trunc", 1.0 - draw(st.sampled_from([1e-9, 1e-6, 1e-5])), draw(st.integers(0, 255))), ("flip", draw(st.floats(0.05, 0.95)), draw(st.integers(1, 255)))]
    # an uncompressed archive in the old V7 dialect (no "ustar" magic) whose first bytes - the first member's name - look like the magic of a compressor
    if draw(st.sampled_from([0] * 11 + [1])):
        nm = draw(st.sampled_from([b"BZh91AY&notes", b"BZhou.txt", b"\x1f\x8b\x08.bin", b"\xfd7zXZ", b"\x28\xb5\x2f\xfdz"]))
        ar["entries"].insert(0, dict(name=nm, type="file", mode=0o644, uid=0, gid=0, mtime=5, xattrs={}, data=b"v7 member\n" * draw(st.integers(0, 60)),
                                     enc=dict(fmt=draw(st.sampled_from(["v7", "v7", "gnu", "ustar"])), num="octal", ostyle=0)))
        ar["global_pax"] = False
    # options that make tar2sqfs pass over members without reading their data (a stream that ends inside such a member is as
    # incomplete as any other)
    skip = draw(st.sampled_from([None, None, None, None, "E", "r"]))
    if len(splits) >= 1 and (skip or draw(st.booleans())):
        # the stream ends cleanly after one of its members, wherever in the archive that is
        damage = damage + [("truncb", draw(st.floats(0, 1)), 0)]
    return dict(archive=ar, codec=codec, level=level, splits=splits, trailing=trailing, chunk=chunk, damage=damage, opts=o, s2t_codec=s2t_codec, tailwin=tailwin, skip=skip,
                empties=empties, short_reads=short_reads, s2t_pad=s2t_pad, s2t_mult=draw(st.sampled_from([1, 1, 2])), s2t_kind=draw(st.sampled_from(["rand", "text"])))


def t2s_args(case, out):
    extra = {"E": ["-E", "*"], "r": ["-r", "no-such-prefix-zz"]}.get(case.get("skip"), [])
    a = c04.t2s_cmd(case["opts"], out)
    return a[:-1] + extra + [out]


def feed(cmd, data, chunk, timeout=40, env=None):
    """run cmd with data on a pipe, written in chunks of the given size (0 = all at once)"""
    if not chunk or len(data) // max(chunk, 1) > 20000:
        return vcommon.run(cmd, stdin=data, timeout=timeout, env=env)
    e = dict(os.environ)
    e.update(vbuild.ASAN_ENV)
    e["LC_ALL"] = "C"
    if env:
        e.update(env)
    p = subprocess.Popen(cmd, stdin=subprocess.PIPE, stdout=subprocess.PIPE, stderr=subprocess.PIPE, env=e, start_new_session=True)
    t0 = time.time()

    def w():
        try:
            for i in range(0, len(data), chunk):
                p.stdin.write(data[i:i + chunk])
                p.stdin.flush()
            p.stdin.close()
        except (BrokenPipeError, OSError, ValueError):
            pass
    th = threading.Thread(target=w, daemon=True)
    th.start()
    r = vcommon.Run()
    r.cmd = cmd
    try:
        out = p.stdout.read() if False else None
        p.wait(timeout=timeout)
        r.timeout = False
    except subprocess.TimeoutExpired:
        import signal
        try:
            os.killpg(p.pid, signal.SIGKILL)
        except OSError:
            pass
        p.wait()
        r.timeout = True
    r.out = p.stdout.read()
    r.err = p.stderr.read()
    r.rc = p.returncode
    r.wall = time.time() - t0
    try:
        p.stdin.close()
    except Exception:
        pass
    th.join(1)
    return r


def check_case(case, opts):
    ar, o = case["archive"], case["opts"]
    codec = case["codec"]
    classes = ["codec_" + codec]
    try:
        ents, tpad = ar["entries"], ar["trailing_pad"]
        tw = case.get("tailwin")
        if tw:
            k, tpad, frac, slack = tw
            big = dict(name=b"zz-tailwin", type="file", mode=0o644, uid=0, gid=0, mtime=5, xattrs={}, data=b"", enc=dict(fmt="ustar", num="octal", ostyle=0))
            base = len(tarimg.encode_archive(ents + [big], False, ar["global_pax"], 0))
            x = 512 * min(tpad - 1, int(frac * tpad))              # bytes of the trailing padding that stay inside the window
            while 262144 * k - x - 1024 - base <= 0:
                k += 1
            size = 262144 * k - x - 1024 - base                    # multiple of 512
            big["data"] = treemodel.content_bytes(("rand", 11, 0, size - min(slack, size - 1)), 4096)
            ents = ents + [big]
            classes.append("marker_ends_a_256k_window")
        plain = tarimg.encode_archive(ents, ar["end_marker"], ar["global_pax"], tpad)
        tarimg.expected_from_archive(ents, o)
    except (OverflowError, treemodel.Unrepresentable):
        raise Inconclusive("generator")
    t2s = vcommon.tool("asan", "tar2sqfs")
    with Scratch("c15") as sc:
        ref = os.path.join(sc, "ref.sqfs")
        r0 = vcommon.run([t2s] + t2s_args(case, ref), stdin=plain, timeout=60)
        v7magic = bool(ents) and ents[0]["name"][:3] in (b"BZh", b"\x1f\x8b\x08", b"\xfd7z", b"\x28\xb5\x2f")
        if v7magic:
            classes.append("%s_first_name_looks_like_a_compressor_magic" % ents[0].get("enc", {}).get("fmt", "ustar"))
        if (r0.rc != 0 and not r0.timeout and not r0.sanitizer()) and v7magic:
            # transparency in the other direction: the same archive wrapped must then be refused as well
            rw = vcommon.run([t2s] + t2s_args(case, os.path.join(sc, "w.sqfs")), stdin=compress(codec, plain, case["level"]), timeout=60)
            if rw.rc == 0:
                raise Violation("the plain archive is refused (%s) but the same archive wrapped in %s is converted" % (r0.err[-160:].decode(errors="replace").strip(), codec),
                                None, sig="plain-refused-wrapped-accepted")
        if r0.rc != 0 or r0.timeout or r0.sanitizer():
            raise Inconclusive("plain archive refused (C04's business)")
        refimg = open(ref, "rb").read()
        # members
        cuts = sorted(set(int(f * len(plain)) for f in case["splits"]))
        parts, prev = [], 0
        for c in cuts + [len(plain)]:
            parts.append(plain[prev:c])
            prev = c
        parts = [p for p in parts if p] or [b""]
        if case.get("empties"):
            # split further at 512 byte record boundaries and put an empty member there
            at = sorted(set((int(f * len(plain)) // 512) * 512 for f in case["empties"]))
            newparts, pos = [], 0
            for p_ in parts:
                lo, hi = pos, pos + len(p_)
                inner = [a - lo for a in at if lo <= a < hi]
                prev_ = 0
                for a in inner:
                    if a > prev_:
                        newparts.append(p_[prev_:a])
                    newparts.append(b"")
                    prev_ = a
                newparts.append(p_[prev_:])
                pos = hi
            parts = newparts
            classes.append("empty_members")
        comp = b"".join(compress(codec, p, case["level"]) for p in parts)
        if len(parts) > 1:
            classes.append("multi_member")
        tr = case["trailing"]
        wire = comp + {"none": b"", "zeros512": b"\0" * 512, "zeros7": b"\0" * 7, "garbage": b"garbage!" * 5}[tr]
        if tr != "none":
            classes.append("trailing_" + tr)
        if case["chunk"]:
            classes.append("chunked")
        if len(plain) >= 262144:
            classes.append("crosses_256k")
        out = os.path.join(sc, "c.sqfs")
        senv = None
        if case.get("short_reads") and opts.get("io_shim"):
            senv = dict(VERIF_IO_MODE="short", VERIF_IO_SEED=str(case["short_reads"]), LD_PRELOAD=opts["io_shim"])
            classes.append("short_reads")
        r = feed([t2s] + t2s_args(case, out), wire, case["chunk"], env=senv)
        if r.timeout:
            raise Violation("tar2sqfs hangs on %s input (%s trailing, %d members)" % (codec, tr, len(parts)), None, sig="hang-" + ("trailing" if tr != "none" else "valid"))
        if r.sanitizer():
            raise Violation("tar2sqfs on %s input: %s" % (codec, r.sanitizer()), r.err.decode(errors="replace")[-2000:], sig="sanitizer")
        if tr == "none":
            if r.rc != 0:
                raise Violation("tar2sqfs refused a valid %s stream (%d members): %s" % (codec, len(parts), r.err[-300:].decode(errors="replace")), None, sig="refused-valid")
            if open(out, "rb").read() != refimg:
                raise Violation("image from %s-compressed archive (%d members, chunk %d) differs from the image of the plain archive" % (codec, len(parts), case["chunk"]),
                                None, sig="image-differs")
        else:
            # trailing bytes: either the same image or a refusal
            if r.rc == 0 and open(out, "rb").read() != refimg:
                raise Violation("trailing %s after the %s stream changed the image" % (tr, codec), None, sig="image-differs-trailing")
            if r.rc != 0 and os.path.exists(out):
                raise Violation("tar2sqfs refused the stream but left an output file", None, sig="output-left")
        # ---- damaged streams
        nd = 0
        for kind, frac, val in case["damage"]:
            pos = min(len(comp) - 1, int(frac * len(comp)))
            if kind == "truncb":
                lens = [len(compress(codec, p_, case["level"])) for p_ in parts]
                if len(lens) < 2:
                    continue
                pos = sum(lens[:1 + int(frac * (len(lens) - 1)) % (len(lens) - 1)])
                kind = "trunc"
            if kind == "truncm":
                # a cut a few bytes into a later member: the decoder has finished whole members before it
                lens = [len(compress(codec, p_, case["level"])) for p_ in parts]
                if len(lens) < 2:
                    continue
                m = 1 + int(frac * (len(lens) - 1)) % (len(lens) - 1)
                pos = sum(lens[:m]) + 1 + val % max(1, min(lens[m] - 1, 64))
                kind = "trunc"
            if kind == "trunc":
                bad = comp[:pos]
                if pos == 0:
                    continue
                # a cut exactly between two members is a shorter, valid stream (legitimate when it is also an entry boundary)
                ends, acc, pacc = {}, 0, 0
                for p_ in parts:
                    acc += len(compress(codec, p_, case["level"]))
                    pacc += len(p_)
                    ends[acc] = pacc
                legit_boundary = pos in ends
                inside_member = False
                if legit_boundary:
                    # ... unless the plain bytes delivered so far end inside a tar member (header, extension record or data): then the
                    # archive is incomplete however cleanly the compressed stream ends
                    import c13
                    mem = c13._members(plain)
                    inside_member = bool(mem) and any(ms < ends[pos] < dend for ms, _, _, dend in mem)
                    if inside_member:
                        classes.append("member_boundary_inside_tar_member" + ("_skipped" if case.get("skip") else ""))
            elif kind == "flip":
                bad = comp[:pos] + bytes([comp[pos] ^ (val or 1)]) + comp[pos + 1:]
                legit_boundary = False
            elif kind == "zero":
                n = 1 + val % 64
                bad = comp[:pos] + b"\0" * min(n, len(comp) - pos) + comp[pos + n:]
                legit_boundary = False
            else:
                bad = comp[:pos] + comp[pos:pos + 1 + val] + comp[pos:]
                legit_boundary = False
            if bad == comp:
                continue
            outb = os.path.join(sc, "bad%d.sqfs" % nd)
            nd += 1
            rb = feed([t2s] + t2s_args(case, outb), bad, 0)
            if rb.timeout:
                raise Violation("tar2sqfs hangs on a damaged %s stream (%s at %d of %d)" % (codec, kind, pos, len(comp)), None, sig="hang-damaged")
            if rb.sanitizer():
                raise Violation("tar2sqfs on damaged %s stream: %s" % (codec, rb.sanitizer()), rb.err.decode(errors="replace")[-2000:], sig="sanitizer")
            if rb.rc == 0 and kind == "trunc" and legit_boundary and inside_member:
                raise Violation("%s stream without its later members, ending inside a tar member (%d of %d plain bytes)%s, was accepted with exit 0" % (
                    codec, ends[pos], len(plain), " which tar2sqfs skips" if case.get("skip") else ""), None, sig="truncated-accepted")
            if rb.rc == 0 and kind == "trunc" and not legit_boundary:
                # "truncated compressed input is reported as an error": a proper prefix that the reference decompressor refuses as
                # incomplete must not be accepted, even if everything that was lost is zero padding behind the end-of-archive marker
                try:
                    decompress_ref(codec, bad)
                    refused = False
                except Exception:
                    refused = True
                if refused:
                    raise Violation("%s stream cut at %d of %d bytes (incomplete for the reference decompressor) was accepted with exit 0" % (codec, pos, len(comp)),
                                    None, sig="truncated-accepted")
            if rb.rc == 0:
                got = open(outb, "rb").read()
                if got != refimg and not legit_boundary:
                    # is the damaged stream still a valid stream for the reference decompressor (e.g. flipped header time stamp)?
                    try:
                        same = decompress_ref(codec, bad) == plain
                    except Exception:
                        same = False
                    if not same:
                        raise Violation("damaged %s stream (%s at %d of %d) was accepted with exit 0 and gave a different image" % (codec, kind, pos, len(comp)),
                                        None, sig="damaged-accepted-" + kind)
            else:
                if os.path.exists(outb):
                    raise Violation("tar2sqfs refused a damaged stream but left an output file", None, sig="output-left")
                if not rb.err:
                    raise Violation("tar2sqfs refused a damaged stream without a diagnostic", None, sig="no-diagnostic")
            classes.append("damage_" + kind)
        # ---- sqfs2tar -c X
        s2t = vcommon.tool("asan", "sqfs2tar")
        ra = vcommon.run([s2t, ref], timeout=40)
        pad = case.get("s2t_pad")
        if pad is not None and ra.rc == 0 and not ra.timeout:
            base = len(ra.out) + 512
            want = ((base - pad + 262143) // 262144) * 262144 + pad + (case.get("s2t_mult", 1) - 1) * 262144
            if want < base:
                want += 262144
            extra = dict(name=b"zz-s2t-pad", type="file", mode=0o644, uid=0, gid=0, mtime=5, xattrs={},
                         data=treemodel.content_bytes((case.get("s2t_kind", "rand"), 9, 0, want - base), 4096), enc=dict(fmt="ustar", num="octal", ostyle=0))
            try:
                plain2 = tarimg.encode_archive(ar["entries"] + [extra], True, ar["global_pax"], 0)
                ref2 = os.path.join(sc, "ref2.sqfs")
                r2 = c04.run_t2s(plain2, o, ref2)
                if r2.rc == 0 and not r2.timeout:
                    ra2 = vcommon.run([s2t, ref2], timeout=40)
                    if ra2.rc == 0 and len(ra2.out) == want:
                        ref, ra = ref2, ra2
                        classes.append("s2t_output_%s" % ("multiple_of_256k" if pad == 0 else "256k%+d" % pad))
            except (OverflowError, treemodel.Unrepresentable):
                pass
        rc_ = vcommon.run([s2t, "-c", case["s2t_codec"], ref], timeout=40)
        for rr in (ra, rc_):
            if rr.timeout or rr.sanitizer() or rr.rc != 0:
                raise Violation("sqfs2tar failed: rc=%s %s" % (rr.rc, rr.sanitizer() or rr.err[-200:]), None, sig="s2t-failed")
        try:
            dec = decompress_ref(case["s2t_codec"], rc_.out)
        except Exception as e:
            raise Violation("reference %s decompressor rejects 'sqfs2tar -c' output: %r" % (case["s2t_codec"], e), None, sig="s2t-c-invalid")
        if dec != ra.out:
            raise Violation("'sqfs2tar -c %s' output expands to %d bytes, plain output is %d bytes / differs" % (case["s2t_codec"], len(dec), len(ra.out)), None, sig="s2t-c-differs")
        classes.append("s2t_" + case["s2t_codec"])
        return CaseInfo(len(ar["entries"]) >= 2, classes)


def strat(tier, opts):
    return cases(tier)


def exhaustive_truncation(args):
    """every truncation offset of one small compressed archive: must be refused (or be the full image)"""
    codec, seed = args
    import random
    rng = random.Random(seed)
    ents = [dict(name=b"d/", type="dir", mode=0o755, uid=1, gid=2, mtime=3, xattrs={}, enc=dict(fmt="ustar")),
            dict(name=b"d/f", type="file", mode=0o644, uid=1, gid=2, mtime=3, xattrs={}, data=rng.randbytes(rng.choice([10, 600, 1500])), enc=dict(fmt="ustar")),
            dict(name=b"d/g", type="file", mode=0o644, uid=1, gid=2, mtime=3, xattrs={}, data=b"hello" * rng.randint(1, 300), enc=dict(fmt="gnu"))]
    plain = tarimg.encode_archive(ents)
    comp = compress(codec, plain, 6)
    o = dict(comp="gzip", B=4096, defaults={}, source_date_epoch=None)
    t2s = vcommon.tool("asan", "tar2sqfs")
    bad = []
    n = 0
    with Scratch("c15x") as sc:
        ref = os.path.join(sc, "ref.sqfs")
        c04.run_t2s(plain, o, ref)
        refimg = open(ref, "rb").read()
        for cut in range(1, len(comp)):
            out = os.path.join(sc, "t.sqfs")
            r = vcommon.run([t2s] + c04.t2s_cmd(o, out), stdin=comp[:cut], timeout=20)
            n += 1
            if r.timeout:
                bad.append((cut, "hang"))
            elif r.sanitizer():
                bad.append((cut, r.sanitizer()))
            elif r.rc == 0 and open(out, "rb").read() != refimg:
                bad.append((cut, "accepted with exit 0 as a shorter archive"))
            if os.path.exists(out):
                os.unlink(out)
            if len(bad) >= 3:
                break
    return codec, n, len(comp), bad, vcommon.jdumps(dict(codec=codec, seed=seed))


def main(tier, seed, scale=1.0):
    vbuild.build("asan")
    n = int((4000 if tier == "quick" else 60000) * scale)
    res = Result(PROP)
    opts = {"prop": PROP, "io_shim": vbuild.build_shim("io_shim")}
    vcommon.run_corpus(PROP, check_case, opts, res)
    import multiprocessing as mp
    xp = mp.get_context("fork").Pool(4)
    xr = xp.map_async(exhaustive_truncation, [(c, seed) for c in CODECS], chunksize=1)
    for d in vcommon.run_shards("c15", "check_case", "strat", n, seed, tier, opts, shards=12):
        res.merge_shard(d)
    for codec, cnt, total, bad, cj in xr.get():
        res.evaluations += cnt
        res.add_class("exhaustive_truncation_" + codec, cnt)
        for cut, what in bad[:1]:
            case = dict(kind="exhaustive_truncation", codec=codec, seed=seed, cut=cut)
            p = vcommon.save_replay(PROP, case, what)
            res.violations.append(("%s stream truncated at byte %d of %d: %s" % (codec, cut, total, what), p))
    xp.close()
    res.extra["exhaustive_subspace"] = "every truncation offset of one small archive per codec (gzip, xz, zstd, bzip2)"
    res.rule = ("Hypothesis: archives x codec (reference compressors) x level x member splits at arbitrary offsets x trailing none/zeros/garbage "
                "x pipe chunk size x damage (truncate, flip, zero run, duplicate) x sqfs2tar -c codec; plus every truncation offset of a small "
                "archive per codec; non-trivial = archive with >=2 entries; oracle = image equality with the plain archive, refusal (or "
                "unchanged image) for damaged streams, reference decompressor(sqfs2tar -c X) == plain sqfs2tar output, 20-40 s hang limit")
    res.assumptions = ["Python zlib/lzma/bz2 and libzstd (checksum enabled) as reference codecs"]
    res.extra["min_evaluations"] = n // 3
    return res


def replay(path):
    vbuild.build("asan")
    d = vcommon.load_replay(path)
    if d["case"].get("kind") == "exhaustive_truncation":
        res = Result(PROP)
        codec, cnt, total, bad, cj = exhaustive_truncation((d["case"]["codec"], d["case"]["seed"]))
        for cut, what in bad[:1]:
            res.violations.append(("%s stream truncated at byte %d: %s" % (codec, cut, what), path))
        return res
    return vcommon.replay_case(PROP, check_case, path, {"prop": PROP, "io_shim": vbuild.build_shim("io_shim")})
