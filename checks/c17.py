"""C17 - packing directives (sort file, -T, -e) are honoured exactly in the on-disk layout.

Reference model: default pack order = pre-order DFS over the sorted tree; each sort-file line claims the
not yet matched files it matches (literal: exact path; glob: fnmatch with FNM_PATHNAME; glob_no_path: without);
files are packed by ascending priority, stable.  From the image (independent parser): data start offsets and
fragment (index, offset) pairs are monotone in pack order; dont_compress / dont_fragment / nosparse /
dont_deduplicate / -T have exactly their documented effect; unlisted files are unaffected; tree and contents
read back unchanged; -e yields a correct export table (validator E1).
"""
import os, hashlib
from hypothesis import strategies as st
import vcommon, vbuild, treemodel, packlib, sqfsimg
from vcommon import Violation, Inconclusive, CaseInfo, Result, Scratch

PROP = "C17"
FLAGS = ["dont_fragment", "dont_compress", "dont_deduplicate", "nosparse"]


# ------------------------------------------------------------------ independent fnmatch (subset: * ? [set] literals)
def fnm(pat, s, pathname):
    def rec(pi, si):
        while pi < len(pat):
            c = pat[pi:pi + 1]
            if c == b"*":
                while pat[pi:pi + 1] == b"*":
                    pi += 1
                if pi == len(pat):
                    return not (pathname and b"/" in s[si:])
                for k in range(si, len(s) + 1):
                    if rec(pi, k):
                        return True
                    if k < len(s) and pathname and s[k:k + 1] == b"/":
                        return False
                return False
            if si >= len(s):
                return False
            if c == b"?":
                if pathname and s[si:si + 1] == b"/":
                    return False
            elif c == b"[":
                end = pat.find(b"]", pi + 2)
                if end < 0:
                    if s[si:si + 1] != b"[":
                        return False
                else:
                    body = pat[pi + 1:end]
                    neg = body[:1] in (b"!", b"^")
                    if neg:
                        body = body[1:]
                    ok = False
                    i = 0
                    while i < len(body):
                        if i + 2 < len(body) and body[i + 1:i + 2] == b"-":
                            if body[i] <= s[si] <= body[i + 2]:
                                ok = True
                            i += 3
                        else:
                            if body[i] == s[si]:
                                ok = True
                            i += 1
                    if pathname and s[si:si + 1] == b"/":
                        return False
                    if ok == neg:
                        return False
                    pi = end
            elif c != s[si:si + 1]:
                return False
            pi += 1
            si += 1
        return si == len(s)
    return rec(0, 0)


# ------------------------------------------------------------------ generator
SAFE = b"abcdxyz0123._-"


@st.composite
def cases(draw, tier="quick"):
    B = draw(st.sampled_from([4096, 4096, 8192]))
    nm_safe = st.lists(st.sampled_from(list(SAFE)), min_size=1, max_size=6).map(bytes).filter(lambda b: b not in (b".", b".."))
    nm_odd = st.lists(st.sampled_from(list(b"ab \"\\'#[]*?")), min_size=1, max_size=5).map(bytes)
    ndirs = draw(st.integers(0, 3))
    dirs = [b""]
    nodes = []
    used = set()
    for _ in range(ndirs):
        parent = draw(st.sampled_from(dirs))
        n = draw(nm_safe)
        p = parent + b"/" + n if parent else n
        if p in used:
            continue
        used.add(p)
        dirs.append(p)
        nodes.append(dict(path=p, type="dir", mode=0o755, uid=0, gid=0, mtime=0, xattrs={}))
    nfiles = draw(st.sampled_from([0, 1, 2, 2, 3, 3, 4, 5, 6, 7, 8, 9]))      # 0: a sort file with nothing to sort
    seed = 100
    files = []
    for i in range(nfiles):
        parent = draw(st.sampled_from(dirs))
        n = draw(st.one_of(nm_safe, nm_safe, nm_safe, nm_odd))
        p = parent + b"/" + n if parent else n
        if p in used:
            continue
        used.add(p)
        seed += 1
        kind = draw(st.sampled_from(["small", "small", "exact", "tail", "tail", "multi", "zeros", "text", "textsmall", "twin"]))
        if kind == "small":
            content = ("rand", seed, 0, draw(st.integers(1, B - 1)))
        elif kind == "exact":
            content = ("rand", seed, draw(st.integers(1, 2)), 0)
        elif kind == "tail":
            content = ("rand", seed, 1, draw(st.integers(1, B - 1)))
        elif kind == "multi":
            content = ("rand", seed, draw(st.integers(2, 3)), draw(st.integers(0, 600)))
        elif kind == "zeros":
            content = ("mix", seed, draw(st.integers(2, 4)), draw(st.integers(0, 100)), draw(st.sampled_from([[1, 0], [0, 1], [1, 0, 0, 1], [0]])))
        elif kind == "text":
            content = ("text", seed, draw(st.integers(1, 3)), draw(st.integers(0, 900)))
        elif kind == "textsmall":
            content = ("text", seed, 0, draw(st.integers(200, B - 1)))
        else:
            prev = [f for f in files if f["content"][0] in ("rand", "text")]
            content = draw(st.sampled_from(prev))["content"] if prev else ("rand", seed, 1, 77)
        f = dict(path=p, type="file", mode=0o644, uid=0, gid=0, mtime=0, xattrs={}, content=content, kind=kind)
        files.append(f)
        nodes.append(f)
    # sort file lines
    lines = []
    nlines = draw(st.integers(0, 7))
    safe_files = [f for f in files if all(c in SAFE + b"/" for c in f["path"])]
    for _ in range(nlines):
        prio = draw(st.one_of(st.sampled_from([-100000, -1, 0, 0, 1, 5, 5, 5, 1 << 40, -(1 << 40)]), st.integers(-3, 3)))
        flags = draw(st.lists(st.sampled_from(FLAGS), max_size=3, unique=True))
        how = draw(st.sampled_from(["literal", "literal", "literal", "glob", "glob", "glob_no_path", "nomatch"]))
        if how == "literal" and files:
            pat = draw(st.sampled_from(files))["path"]
        elif how == "nomatch":
            pat = b"does/not/exist"
            how = "literal"
        else:
            if safe_files and draw(st.booleans()):
                base = draw(st.sampled_from(safe_files))["path"]
                # derive a pattern from a real path
                k = draw(st.integers(0, len(base)))
                pat = draw(st.sampled_from([base[:k] + b"*", b"*" + base[k:], base[:k] + b"?" + base[k + 1:], b"*", b"*/*", b"[a-d]*", b"*[0-9]*",
                                            base.rsplit(b"/", 1)[0] + b"/*" if b"/" in base else b"*"]))
            else:
                pat = draw(st.sampled_from([b"*", b"*/*", b"*/*/*", b"[a-d]*", b"[!a-d]*", b"*.", b"?", b"??*", b"a*", b"*x*"]))
            if how == "literal":
                how = "glob"
        quoted = draw(st.booleans()) or any(c in pat for c in b" \"\\#") or pat[:1] in (b"[", b"#")
        lead = draw(st.sampled_from([b"", b"", b"/", b"./"])) if how == "literal" else b""
        lines.append(dict(prio=prio, flags=flags, how=how, pat=lead + pat, quoted=quoted, indent=draw(st.sampled_from([b"", b"  ", b"\t"])),
                          sep=draw(st.sampled_from([b" ", b"  ", b"\t"]))))
    o = dict(comp=draw(st.sampled_from(["gzip", "gzip", "zstd", "xz", "lz4"])), X=None, B=B, T=draw(st.booleans()), e=draw(st.booleans()),
             j=draw(st.sampled_from([None, 1, 2, 4])), Q=None, devblk=draw(st.sampled_from([None, 1024, 8192])), defaults={},
             source_date_epoch=None, xattr_styles=[0], quote_all=False, loc_style=0, packdir_mode=0)
    return dict(mode="file", nodes=nodes, opts=o, sort=lines, comments=draw(st.booleans()))


def sort_file_text(lines, comments):
    out = []
    if comments:
        out.append(b"# a comment")
        out.append(b"")
    for l in lines:
        fl = list(l["flags"])
        if l["how"] in ("glob", "glob_no_path"):
            fl.insert(0, l["how"])
        s = l["indent"] + b"%d" % l["prio"] + l["sep"]
        if fl:
            s += b"[" + b",".join(f.encode() for f in fl) + b"]" + l["sep"]
        pat = l["pat"]
        if l["quoted"]:
            pat = b'"' + pat.replace(b"\\", b"\\\\").replace(b'"', b'\\"') + b'"'
        out.append(s + pat)
        if comments:
            out.append(b"   # another comment")
    return b"\n".join(out) + b"\n"


def default_order(nodes):
    """pre-order DFS over the tree with children sorted by byte-wise name"""
    children = {}
    by = {n["path"]: n for n in nodes}
    allp = set(by)
    for n in nodes:
        for p in treemodel.parents_of(n["path"]):
            allp.add(p)
    for p in allp:
        par = p.rsplit(b"/", 1)[0] if b"/" in p else b""
        children.setdefault(par, []).append(p)
    order = []

    def walk(d):
        for c in sorted(children.get(d, []), key=lambda p: p.rsplit(b"/", 1)[-1]):
            n = by.get(c)
            if n is not None and n["type"] == "file":
                order.append(c)
            elif n is None or n["type"] == "dir":
                walk(c)
    walk(b"")
    return order


def model(case):
    nodes = case["nodes"]
    order = default_order(nodes)
    prio = {p: 0 for p in order}
    flags = {p: set() for p in order}
    matched = set()
    for l in case["sort"]:
        if l["how"] == "literal":
            want = b"/".join(c for c in l["pat"].split(b"/") if c not in (b"", b"."))
            for p in order:
                if p not in matched and p == want:
                    matched.add(p)
                    prio[p], flags[p] = l["prio"], set(l["flags"])
                    break
        else:
            for p in order:
                if p not in matched and fnm(l["pat"], p, l["how"] == "glob"):
                    matched.add(p)
                    prio[p], flags[p] = l["prio"], set(l["flags"])
    pack = sorted(order, key=lambda p: prio[p])  # stable
    return pack, prio, flags, matched


def check_case(case, opts):
    o = case["opts"]
    B = o["B"]
    pack, prio, flags, matched = model(case)
    by = {n["path"]: n for n in case["nodes"]}
    with Scratch("c17") as sc:
        sf = os.path.join(sc, "sort.txt")
        with open(sf, "wb") as fh:
            fh.write(sort_file_text(case["sort"], case["comments"]))
        try:
            r, out = packlib.run_pack(case, sc, extra_args=["-S", sf])
        except OSError as e:
            raise Inconclusive(str(e))
        if r.sanitizer():
            raise Violation("gensquashfs -S: " + r.sanitizer(), r.err.decode(errors="replace")[-2000:], sig="sanitizer")
        if r.timeout:
            raise Violation("gensquashfs -S hangs", None, sig="timeout")
        if r.rc != 0:
            raise Violation("gensquashfs refused a valid sort file: %s" % r.err[-300:].decode(errors="replace"), None, sig="refused-valid")
        data = open(out, "rb").read()
        try:
            img = sqfsimg.Image(data)
            got = img.tree()
        except sqfsimg.FormatError as e:
            raise Violation("image does not parse: %s" % e, None, sig="unparsable")
        exp = treemodel.expected_tree(case["nodes"], o, "file", B)
        diffs = treemodel.compare_trees(exp, got)
        if diffs:
            raise Violation("sort file / switches changed the tree read back: " + "; ".join(diffs[:3]), diffs, sig="tree-diff")
        v = sqfsimg.validate(img, packlib.devblk_bytes(o))
        if v:
            raise Violation("image violates on-disk invariants: " + "; ".join(v[:3]), v, sig="invalid")
        if bool(o.get("e")) != (img.export is not None):
            raise Violation("--exportable %s but export table %s" % (o.get("e"), "present" if img.export is not None else "absent"), None, sig="export")
        # ---- layout
        ino = {p: img.paths[p] for p in pack}
        content_count = {}
        for p in pack:
            k = vcommon.jdumps(by[p]["content"])
            content_count[k] = content_count.get(k, 0) + 1
        uniq = [p for p in pack if content_count[vcommon.jdumps(by[p]["content"])] == 1]
        # 1. data placement follows the pack order
        lastpos, lastp = -1, None
        # a block run whose bytes also occur as blocks of another file may legitimately be stored there (deduplication compares
        # bytes, e.g. two one-byte blocks of dont_fragment files): only files whose first data block is unique have a place of their own
        blockset = {}
        firstblk = {}
        for p in pack:
            c = treemodel.content_bytes(by[p]["content"], B)
            blks = [c[k:k + B] for k in range(0, len(c), B)]
            firstblk[p] = next((b for b in blks if any(b)), None)
            for b in set(blks):
                blockset[b] = blockset.get(b, 0) + 1
        for p in uniq:
            i = ino[p]
            if firstblk[p] is None or blockset.get(firstblk[p], 0) > 1:
                continue
            if any(w != 0 for w in i.block_sizes):
                if i.blocks_start < lastpos:
                    raise Violation("data of %r (priority %d) is stored before data of %r (priority %d) although it is packed later" % (
                        p, prio[p], lastp, prio[lastp]), dict(pack=pack, prio={k.decode("latin-1"): v for k, v in prio.items()}), sig="order-blocks")
                lastpos, lastp = i.blocks_start, p
        lastf, lastp = (-1, -1), None
        # a tail end whose bytes equal another file's tail end is legitimately stored where that one is (deduplication of
        # fragments works on the bytes, e.g. two one-byte tails): only tails with unique bytes have a place of their own
        tails = {}
        for p in pack:
            c = treemodel.content_bytes(by[p]["content"], B)
            tails[p] = c[len(c) // B * B:] if len(c) % B else (c if len(c) < B else b"")
        tail_count = {}
        for t in tails.values():
            tail_count[t] = tail_count.get(t, 0) + 1
        for p in uniq:
            i = ino[p]
            if tail_count[tails[p]] > 1:
                continue
            if i.frag_idx != sqfsimg.NOFRAG:
                cur = (i.frag_idx, i.frag_off)
                if cur < lastf:
                    raise Violation("fragment of %r (priority %d) at %r precedes fragment of %r (priority %d) at %r although it is packed later" % (
                        p, prio[p], cur, lastp, prio[lastp], lastf), dict(pack=pack), sig="order-frags")
                lastf, lastp = cur, p
        # 2. per-file flags
        first_seen = {}
        for p in pack:
            i = ino[p]
            n = by[p]
            size = treemodel.recipe_size(n["content"], B)
            fl = flags[p]
            nofrag = "dont_fragment" in fl or (o.get("T") and size > B)
            if nofrag:
                if i.frag_idx != sqfsimg.NOFRAG:
                    raise Violation("%r must not use a tail fragment (%s) but has one" % (p, "dont_fragment" if "dont_fragment" in fl else "-T"), None, sig="flag-fragment")
            else:
                tail_bytes = treemodel.content_bytes(n["content"], B)[size - size % B:]
                # an all-zero tail may legitimately be stored as a sparse block instead of a fragment
                if size % B and i.frag_idx == sqfsimg.NOFRAG and any(tail_bytes):
                    raise Violation("%r (size %d, flags %s, -T %s) has no tail fragment although nothing forbids it" % (p, size, sorted(fl), o.get("T")), None, sig="flag-fragment-spurious")
            raw = [w for w in i.block_sizes if w != 0]
            if "dont_compress" in fl and content_count[vcommon.jdumps(n["content"])] == 1:
                # (a twin of an already stored file may be deduplicated against that file's compressed blocks;
                #  the documentation does not say which directive wins, so only unique contents are judged)
                if any(not w & (1 << 24) for w in raw):
                    raise Violation("%r is marked dont_compress but has compressed blocks" % p, None, sig="flag-compress")
                if i.frag_idx != sqfsimg.NOFRAG and not img.frags[i.frag_idx][1] & (1 << 24):
                    raise Violation("%r is marked dont_compress but its fragment block is compressed" % p, None, sig="flag-compress-frag")
            elif "dont_compress" not in fl and content_count[vcommon.jdumps(n["content"])] == 1 and n["content"][0] == "text" and raw \
                    and all(w & (1 << 24) for w in raw):
                raise Violation("%r is compressible and not marked dont_compress but all its blocks are stored raw" % p, None, sig="flag-compress-spurious")
            data_f = treemodel.content_bytes(n["content"], B)
            zero_blocks = [k for k in range(len(i.block_sizes)) if not any(data_f[k * B:(k + 1) * B])]
            if "nosparse" in fl:
                if any(i.block_sizes[k] == 0 for k in zero_blocks):
                    raise Violation("%r is marked nosparse but a zero block was left out" % p, None, sig="flag-sparse")
            else:
                if any(i.block_sizes[k] != 0 for k in zero_blocks):
                    raise Violation("%r is not marked nosparse but a zero block was materialised" % p, None, sig="flag-sparse-spurious")
            # dedup
            key = vcommon.jdumps(n["content"])
            if content_count[key] > 1 and raw and size >= B:
                loc = (i.blocks_start, tuple(i.block_sizes))
                if key in first_seen:
                    shared = (loc == first_seen[key][0])
                    if "dont_deduplicate" in fl and shared:
                        raise Violation("%r is marked dont_deduplicate but shares its blocks with %r" % (p, first_seen[key][1]), None, sig="flag-dedup")
                    if "dont_deduplicate" not in fl and not shared and "dont_compress" not in fl and "dont_compress" not in flags[first_seen[key][1]] \
                            and ("dont_fragment" in fl or (o.get("T") and size > B)) == ("dont_fragment" in flags[first_seen[key][1]] or (o.get("T") and size > B)) \
                            and ("nosparse" in fl) == ("nosparse" in flags[first_seen[key][1]]):
                        raise Violation("%r duplicates %r, nothing forbids sharing, but the blocks are stored twice" % (p, first_seen[key][1]), None, sig="dedup-missing")
                else:
                    first_seen[key] = (loc, p)
        classes = ["lines_%d" % min(len(case["sort"]), 4)]
        if any(l["quoted"] for l in case["sort"]):
            classes.append("quoted")
        if any(l["how"] != "literal" for l in case["sort"]):
            classes.append("glob")
        for f in FLAGS:
            if any(f in fl for fl in flags.values()):
                classes.append("eff_" + f)
        prios = [prio[p] for p in matched]
        ties = len(prios) != len(set(prios))
        nontrivial = len(matched) >= 2 and (ties or len(case["sort"]) > len(matched) or any(l["how"] != "literal" for l in case["sort"]))
        if pack != default_order(case["nodes"]):
            classes.append("reordered")
        return CaseInfo(nontrivial, classes)


def strat(tier, opts):
    return cases(tier)


def main(tier, seed, scale=1.0):
    vbuild.build("asan")
    n = int((12000 if tier == "quick" else 150000) * scale)
    res = Result(PROP)
    vcommon.run_corpus(PROP, check_case, {"prop": PROP}, res)
    for d in vcommon.run_shards("c17", "check_case", "strat", n, seed, tier, {"prop": PROP}):
        res.merge_shard(d)
    res.rule = ("Hypothesis: trees of unique-content files (<B, =B, B+tail, multi-block, zero blocks, compressible, twins) x sort files (negative/"
                "positive/tied priorities, literal / glob / glob_no_path patterns, quoted names with escapes, overlapping patterns, every flag "
                "subset, comments, no-match lines) x -T -e -j -B; non-trivial = >=2 matched files and a tie, an overlap or a glob; oracle = "
                "reference model of pack order and flags vs layout decoded by the independent parser, plus tree/content equality and invariants")
    res.assumptions = ["reference model from the SORT FILE FORMAT section of gensquashfs.1", "independent fnmatch subset (* ? [set]) over a safe alphabet"]
    res.extra["min_evaluations"] = n // 3
    return res


def replay(path):
    vbuild.build("asan")
    return vcommon.replay_case(PROP, check_case, path)
