"""C08 - deduplication never changes data, even when checksums collide.

A build whose block checksum is cut to 2..8 bits (src/weakhash.c) packs multisets of file contents constructed so that
many DISTINCT blocks and tail fragments have equal stored size and equal checksum: incompressible random blocks,
equal-length random tails, true duplicates (whole files, leading block runs, tails), prefix runs, zero blocks; enough
tails that earlier fragment blocks are the current block, in flight, or already on disk.  Oracle, both directions:
every file reads back byte-exact (independent parser and rdsquashfs -c), and contents that really are identical
share storage.
"""
import os, hashlib, struct
from hypothesis import strategies as st
import vcommon, vbuild, treemodel, packlib, sqfsimg
from vcommon import Violation, Inconclusive, CaseInfo, Result, Scratch

PROP = "C08"

P1, P2, P3, P4, P5 = 2654435761, 2246822519, 3266489917, 668265263, 374761393
M = 0xFFFFFFFF


def _rotl(x, r):
    return ((x << r) | (x >> (32 - r))) & M


def xxh32(data, seed=0):
    """reference xxHash32 (seed 0), used only to count forced collisions"""
    n = len(data)
    i = 0
    if n >= 16:
        v1, v2, v3, v4 = (seed + P1 + P2) & M, (seed + P2) & M, seed & M, (seed - P1) & M
        while i <= n - 16:
            a, b, c, d = struct.unpack_from("<IIII", data, i)
            v1 = (_rotl((v1 + a * P2) & M, 13) * P1) & M
            v2 = (_rotl((v2 + b * P2) & M, 13) * P1) & M
            v3 = (_rotl((v3 + c * P2) & M, 13) * P1) & M
            v4 = (_rotl((v4 + d * P2) & M, 13) * P1) & M
            i += 16
        h = (_rotl(v1, 1) + _rotl(v2, 7) + _rotl(v3, 12) + _rotl(v4, 18)) & M
    else:
        h = (seed + P5) & M
    h = (h + n) & M
    while i <= n - 4:
        h = (_rotl((h + struct.unpack_from("<I", data, i)[0] * P3) & M, 17) * P4) & M
        i += 4
    while i < n:
        h = (_rotl((h + data[i] * P5) & M, 11) * P1) & M
        i += 1
    h ^= h >> 15
    h = (h * P2) & M
    h ^= h >> 13
    h = (h * P3) & M
    h ^= h >> 16
    return h


@st.composite
def cases(draw, tier="quick"):
    # mostly the smallest block size (many blocks per byte); sometimes the largest one, whose raw blocks have the largest size word
    B = draw(st.sampled_from([4096] * 24 + [1048576]))
    bits = draw(st.sampled_from([2, 3, 4, 4, 6, 8]))
    n = draw(st.integers(6, 40)) if B == 4096 else draw(st.integers(4, 7))
    tail_lens = draw(st.lists(st.integers(1, B - 1), min_size=1, max_size=3))
    nodes = []
    recs = []
    for i in range(n):
        k = draw(st.sampled_from(["tail", "tail", "tail", "block", "blocks", "dup", "prefix", "leaddup", "zeromix", "taildup", "rep", "reprev", "sharedlead", "sharedlead"]))
        seed = 1000 + i
        if k == "tail":          # equal-length distinct tails
            rec = ("rand", seed, 0, draw(st.sampled_from(tail_lens)))
        elif k == "block":       # one incompressible block (+ common tail length)
            rec = ("rand", seed, 1, draw(st.sampled_from([0] + tail_lens)))
        elif k == "blocks":
            rec = ("rand", seed, draw(st.integers(2, 4)), draw(st.sampled_from([0] + tail_lens)))
        elif k == "dup" and recs:
            rec = draw(st.sampled_from(recs))
        elif k == "prefix" and recs:     # same stream, fewer / more blocks: shares leading blocks, differs later
            base = draw(st.sampled_from(recs))
            rec = (base[0], base[1], draw(st.integers(0, 4)), base[3]) + tuple(base[4:])
        elif k == "leaddup" and recs:    # same leading blocks, own tail
            base = draw(st.sampled_from(recs))
            rec = ("cat", base[1], max(1, base[2]), draw(st.sampled_from(tail_lens)), seed)
        elif k == "taildup" and recs:    # own blocks, tail shared with another file
            base = draw(st.sampled_from(recs))
            rec = ("cat", seed, draw(st.integers(0, 2)), draw(st.sampled_from(tail_lens)), 4242)
        elif k == "rep":         # periodic: the same block k times (+ tail), a candidate run can overlap the file's own / the previous blocks
            rec = ("rep", draw(st.integers(1, 3)), draw(st.integers(1, 4)), draw(st.sampled_from([0, 0] + tail_lens)))
        elif k == "reprev" and recs and recs[-1][0] != "lit":   # the file directly before, repeated / extended
            base = recs[-1]
            rec = ("rep", base[1] if base[0] == "rep" else draw(st.integers(1, 3)), base[2] + draw(st.integers(0, 2)), draw(st.sampled_from([0, 0] + tail_lens)))
        elif k == "sharedlead" and recs:
            # first block(s) identical to another file's, the following block its own: with colliding checksums only the bytes
            # behind the common start tell the two runs apart
            base = draw(st.sampled_from(recs))
            rec = ("cat", base[1] if base[0] in ("rand", "cat") else seed, draw(st.integers(1, 2)), B * draw(st.integers(1, 2)) + draw(st.sampled_from([0] + tail_lens)), seed)
        elif k == "zeromix":
            rec = ("mix", seed, draw(st.integers(2, 4)), draw(st.sampled_from([0] + tail_lens)), draw(st.sampled_from([[1, 0], [0, 1, 1], [1, 0, 0, 1]])))
        else:
            rec = ("rand", seed, 0, draw(st.sampled_from(tail_lens)))
        recs.append(rec)
        nodes.append(dict(path=b"f%03d" % i, type="file", mode=0o644, uid=0, gid=0, mtime=0, xattrs={}, content=rec))
    o = dict(comp=draw(st.sampled_from(["gzip", "zstd", "lz4", "xz"])), X=None, B=B, T=draw(st.booleans()), e=False, j=draw(st.sampled_from([1, 2, 4])),
             Q=draw(st.sampled_from([None, 1, 2])), devblk=None, defaults={}, source_date_epoch=None, xattr_styles=[0], quote_all=False, loc_style=0,
             packdir_mode=1)
    sort = []
    if draw(st.integers(0, 3)) == 0:
        # a sort file: per-file flags (dont_compress, ...) and a different pack order
        for nd in nodes:
            if draw(st.integers(0, 2)) == 0:
                sort.append((draw(st.integers(-3, 3)), draw(st.lists(st.sampled_from(["dont_compress", "dont_compress", "dont_fragment", "nosparse", "dont_deduplicate"]),
                                                                      unique=True, max_size=2)), nd["path"]))
    return dict(mode="file", nodes=nodes, opts=o, bits=bits, sort=sort)


def check_case(case, opts):
    o = case["opts"]
    B = o["B"]
    bits = case["bits"]
    with Scratch("c08") as sc:
        try:
            extra = []
            if case.get("sort"):
                sf = os.path.join(sc, "sort.txt")
                with open(sf, "wb") as fh:
                    for prio, flags, path in case["sort"]:
                        fh.write(b"%d " % prio + (b"[" + ",".join(flags).encode() + b"] " if flags else b"") + path + b"\n")
                extra = ["-S", sf]
            r, out = packlib.run_pack(case, sc, variant="weakhash", env={"VERIF_HASH_BITS": str(bits)}, extra_args=extra)
        except OSError as e:
            raise Inconclusive(str(e))
        if r.sanitizer():
            raise Violation("gensquashfs (weak checksum): " + r.sanitizer(), r.err.decode(errors="replace")[-2000:], sig="sanitizer")
        if r.timeout:
            raise Violation("gensquashfs hangs with colliding checksums", None, sig="hang")
        if r.rc != 0:
            raise Violation("gensquashfs fails with colliding checksums: %s" % r.err[-300:].decode(errors="replace"), None, sig="fails")
        data = open(out, "rb").read()
        try:
            img = sqfsimg.Image(data)
        except sqfsimg.FormatError as e:
            raise Violation("image does not parse: %s" % e, None, sig="unparsable")
        contents = {}
        for n in case["nodes"]:
            contents[n["path"]] = treemodel.content_bytes(n["content"], B)
        # direction 1: every file reads back byte-exact
        for p, want in contents.items():
            i = img.paths.get(p)
            if i is None:
                raise Violation("%r missing" % p, None, sig="missing")
            try:
                got = img.file_bytes(i)
            except sqfsimg.FormatError as e:
                raise Violation("%r cannot be read back: %s" % (p, e), None, sig="unreadable")
            if got != want:
                first = next((k for k in range(min(len(got), len(want))) if got[k] != want[k]), min(len(got), len(want)))
                raise Violation("%r reads back with different bytes (first difference at offset %d of %d): another file's data stands in for it" % (p, first, len(want)),
                                None, sig="wrong-data")
        rd = vcommon.tool("asan", "rdsquashfs")
        for p in sorted(contents, key=lambda p: hashlib.md5(p).digest())[:3]:
            rr = vcommon.run([rd, "-c", b"/" + p, out], timeout=30)
            if rr.rc != 0 or rr.out != contents[p]:
                raise Violation("rdsquashfs -c %r returns different bytes" % p, None, sig="wrong-data-cat")
        # direction 2: really identical contents share storage
        byc = {}
        flagged = {path for _, flags, path in (tuple(x) for x in case.get("sort") or []) if flags}
        for p, c in contents.items():
            byc.setdefault(c, []).append(p)

        def loc_of(p):
            i = img.paths[p]
            return (i.blocks_start if any(i.block_sizes) else None, tuple(i.block_sizes), i.frag_idx, i.frag_off if i.frag_idx != sqfsimg.NOFRAG else None)
        tail_of = {p: (c[len(c) // B * B:] if len(c) % B else b"") for p, c in contents.items()}
        run_of = {p: c[:len(c) // B * B] for p, c in contents.items()}
        for c, ps in byc.items():
            if len(ps) < 2 or len(c) == 0:
                continue
            locs = {p: loc_of(p) for p in ps}
            # Block run and tail end are deduplicated independently, and against everything packed so far: the blocks of a file may be
            # found at a twin, its tail at any file with the same tail bytes (a one byte file, the forced copy of a dont_deduplicate
            # file, ...).  Partners outside the group: files with the same tail bytes / the same block run.
            tpart = [q for q in contents if q not in ps and tail_of[ps[0]] and tail_of[q] == tail_of[ps[0]]]
            bpart = [q for q in contents if q not in ps and run_of[ps[0]] and run_of[q] == run_of[ps[0]]]
            if not any(p in flagged for p in ps + tpart + bpart):
                if len(set(locs.values())) > 1:
                    raise Violation("identical files %r do not share storage: %r" % (ps[:3], sorted(set(locs.values()), key=repr)[:3]), None, sig="dedup-missing")
                continue
            # Files with per-file flags (dont_deduplicate, dont_compress, dont_fragment, nosparse) are legitimately stored on their own
            # or in another form; a later unflagged file may share with them or with an unflagged one.  So among the unflagged files
            # of a group at most one (the first one packed in its storage form) may sit at a location nobody else uses - per part.
            tl = {(img.paths[q].frag_idx, img.paths[q].frag_off) for q in tpart if img.paths[q].frag_idx != sqfsimg.NOFRAG}
            bl = {loc_of(q)[:2] for q in bpart}
            lonely_b = [p for p in ps if p not in flagged and locs[p][0] is not None and not any(q != p and locs[q][:2] == locs[p][:2] for q in ps)
                        and locs[p][:2] not in bl]
            lonely_t = [p for p in ps if p not in flagged and locs[p][2] != sqfsimg.NOFRAG and not any(q != p and locs[q][2:] == locs[p][2:] for q in ps)
                        and locs[p][2:] not in tl]
            for lonely, part in ((lonely_b, "blocks"), (lonely_t, "tail ends")):
                if len(lonely) > 1:
                    raise Violation("identical files %r do not share their %s: %r" % (sorted(lonely)[:3], part, sorted((locs[p] for p in lonely), key=repr)[:3]), None, sig="dedup-missing")
        # how many collisions did the weak checksum really force?
        mask = (1 << bits) - 1
        blocks, tails = {}, {}
        for p, c in contents.items():
            nb = len(c) // B
            for k in range(nb):
                b = c[k * B:(k + 1) * B]
                if any(b):
                    blocks.setdefault((xxh32(b) & mask), set()).add(b)
            t = c[nb * B:]
            if t and any(t):
                tails.setdefault((len(t), xxh32(t) & mask), set()).add(t)
        bc = sum(len(v) * (len(v) - 1) // 2 for v in blocks.values())
        tc = sum(len(v) * (len(v) - 1) // 2 for v in tails.values())
        cl = ["bits_%d" % bits] + (["sort_file_flags"] if flagged else [])
        if bc:
            cl.append("block_collisions")
        if tc:
            cl.append("tail_collisions")
        nf = len(img.frags)
        cl.append("frag_blocks_%s" % ("1" if nf <= 1 else "2" if nf == 2 else "3plus"))
        return CaseInfo(bc + tc >= 1, cl)


def strat(tier, opts):
    return cases(tier)


def main(tier, seed, scale=1.0):
    vbuild.build("weakhash")
    vbuild.build("asan")
    n = int((6000 if tier == "quick" else 100000) * scale)
    res = Result(PROP)
    opts = {"prop": PROP}
    vcommon.run_corpus(PROP, check_case, opts, res)
    for d in vcommon.run_shards("c08", "check_case", "strat", n, seed, tier, opts):
        res.merge_shard(d)
    res.rule = ("Hypothesis multisets of 6-40 file contents (equal-length distinct tails, incompressible blocks, duplicates, shared leading "
                "blocks, shared tails, zero blocks) packed by a build whose checksum is cut to 2-8 bits, x compressor, -j, -Q, -T; non-trivial = "
                "the Python model (own xxh32) finds >=1 pair of DIFFERENT blocks or tails with equal size and equal weak checksum; oracle = "
                "byte-exact read-back of every file (independent parser, rdsquashfs -c) and storage sharing of truly identical contents")
    res.assumptions = ["checksum weakened at link time (xxhash.c renamed, masked wrapper); the rest of the packer is unmodified"]
    res.extra["min_evaluations"] = n // 3
    return res


def replay(path):
    vbuild.build("weakhash")
    vbuild.build("asan")
    return vcommon.replay_case(PROP, check_case, path)
