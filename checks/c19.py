"""C19 - copies of library objects are independent, equivalent and safely destroyable.

Hypothesis generates programs for src/c19_copy.c (ASan): a history of reader operations on the original objects, then
sqfs_copy() of every object of the reader set (file, compressor, id table, dir reader, data reader, xattr reader, meta reader),
then interleaved operations on the original (which must not influence the copy) and on the copy - every answer of the copy is
compared with a TWIN built by replaying the pre-copy history on fresh objects - and both release orders with the survivor still
in use.  Compressors (every id, compress and uncompress direction) and the xattr writer have their own operations: results /
flushed bytes of the copy must equal those of an object with the same history.
"""
import os
from hypothesis import strategies as st
import vcommon, vbuild
from vcommon import Violation, Inconclusive, CaseInfo, Result, Scratch
import c10

PROP = "C19"


def harness():
    return vbuild.build_harness("c19_copy", "asan", ["src/c19_copy.c"])


def harness_fault():
    """the same executor linked with the allocation wrappers: 'failcopy k' fails the k-th allocation made while copying"""
    return vbuild.build_harness("c19_copy", "allocfault", ["src/c19_copy.c"])


@st.composite
def cases(draw, tier="quick"):
    kind = draw(st.sampled_from(["readers", "readers", "readers", "cz", "xw", "failcopy", "xwfail"]))
    case = dict(kind=kind, pool=draw(st.sampled_from(list(range(9)) + [6, 7])), dot=draw(st.booleans()))
    opst = st.tuples(st.sampled_from(["inode", "lsdir", "lspart", "resolve", "read", "block", "frag", "stream", "xattr", "xdesc", "id", "mseek", "root", "cross",
                                      # cursors that are continued, not restarted: the copy must stand where the original stood
                                      "rawls", "rawcont", "rawcont", "mcont", "mcont"]),
                     st.integers(0, 10 ** 6), st.integers(0, 10 ** 6), st.integers(0, 10 ** 6), st.integers(1, 9))
    if kind == "readers":
        case["pre"] = draw(st.lists(opst, min_size=0, max_size=12))
        post = []
        for _ in range(draw(st.integers(2, 24))):
            post.append((draw(st.sampled_from(["o", "c", "c", "c"])), draw(opst)))
        # where the releases happen
        case["post"] = post
        case["drop_first"] = draw(st.sampled_from(["o", "c"]))
        case["drop_at"] = draw(st.integers(0, len(post)))
    elif kind == "failcopy":
        # the copy of the reader set runs out of memory at its k-th allocation: the original must not notice
        case["pre"] = draw(st.lists(opst, min_size=0, max_size=8))
        case["k"] = draw(st.one_of(st.integers(1, 45), st.integers(1, 45), st.just(-1)))     # -1: out of file descriptors instead
        case["post"] = [("o", draw(opst)) for _ in range(draw(st.integers(2, 16)))]
    elif kind == "xwfail":
        case["xwfail"] = (draw(st.integers(1, 10 ** 6)), draw(st.integers(0, 30)), draw(st.integers(1, 60)), draw(st.integers(0, 20)))
    elif kind == "cz":
        case["cz"] = [(draw(st.sampled_from([1, 2, 4, 5, 6])), draw(st.one_of(st.just(0), st.integers(1, 40000), st.integers(1, 40000))), draw(st.integers(1, 10 ** 6)), draw(st.sampled_from([16, 100, 4096, 5000, 65536])), draw(st.integers(0, 1)),
                       # options read from an image before the copy is made (0: no; -1: a record the compressor has to refuse)
                       draw(st.one_of(st.just(0), st.just(0), st.integers(1, 40000), st.just(-1))))
                      for _ in range(draw(st.integers(1, 4)))]
    else:
        case["xw"] = [(draw(st.integers(1, 10 ** 6)), draw(st.integers(0, 40)), draw(st.integers(0, 10)), draw(st.integers(0, 40)), draw(st.integers(0, 1)))
                      for _ in range(draw(st.integers(1, 3)))]
    return case


def check_case(case, opts):
    pool = c10.get_pool(opts)
    # only undamaged images: the twin comparison needs a readable image
    good = [p for p in pool if not p["damaged"]]
    P = good[case["pool"] % len(good)]
    lines = []
    if case["kind"] == "readers":
        pre, _ = c10.render(dict(ops=case["pre"]), P)
        lines += ["pre " + l for l in pre]
        lines.append("copy")
        for i, (who, op) in enumerate([tuple(x) for x in case["post"]]):
            if i == case["drop_at"]:
                lines.append("drop " + case["drop_first"])
            l, _ = c10.render(dict(ops=[op]), P)
            lines.append(who + " " + l[0])
        if case["drop_at"] >= len(case["post"]):
            lines.append("drop " + case["drop_first"])
        lines.append("drop " + ("c" if case["drop_first"] == "o" else "o"))
    elif case["kind"] == "failcopy":
        pre, _ = c10.render(dict(ops=case["pre"]), P)
        lines += ["pre " + l for l in pre]
        lines.append("failcopy %d" % case["k"])
        for who, op in [tuple(x) for x in case["post"]]:
            l, _ = c10.render(dict(ops=[op]), P)
            lines.append("o " + l[0])
        lines.append("drop o")
    elif case["kind"] == "xwfail":
        lines.append("xwfail %d %d %d %d" % tuple(case["xwfail"]))
    elif case["kind"] == "cz":
        lines += ["cz " + " ".join("%d" % x for x in t) for t in case["cz"]]
    else:
        lines += ["xw %d %d %d %d %d" % tuple(t) for t in case["xw"]]
    with Scratch("c19") as sc:
        of = os.path.join(sc, "ops.txt")
        with open(of, "w", encoding="latin-1") as fh:
            fh.write("\n".join(lines) + "\n")
        r = vcommon.run([opts["bin_fault"] if case["kind"] in ("failcopy", "xwfail") else opts["bin"], P["path"], of], timeout=120,
                        env={"VERIF_DIR_READER_FLAGS": "1"} if case.get("dot") else None)
        out = r.out.decode(errors="replace")
        prog = "\n".join(lines)
        if r.timeout:
            raise Violation("copy test does not terminate", prog, sig="hang")
        san = r.sanitizer()
        if san:
            fr = [x.decode(errors="replace").strip() for x in r.err.split(b"\n") if b" #" in x and (b"/repo/" in x or b"c19_copy" in x)][:5]
            raise Violation("copied objects (%s): %s" % (case["kind"], san), " | ".join(fr) + "\n" + prog, sig="crash")
        if r.rc == 3 or "MISMATCH" in out:
            m = [l for l in out.splitlines() if l.startswith("MISMATCH")]
            raise Violation("copy is not equivalent / independent (%s): %s" % (case["kind"], m[0] if m else out[:200]), prog, sig="copy-differs")
        if "SKIP" in out:
            raise Inconclusive("compressor rejects the generated option set")
        if r.rc != 0:
            raise Violation("harness exit %s: %s" % (r.rc, (out + r.err.decode(errors="replace"))[-400:]), prog, sig="harness")
        nontrivial = True
        if case["kind"] == "readers":
            nontrivial = len(case["pre"]) >= 1 and any(w == "o" for w, _ in case["post"]) and any(w == "c" for w, _ in case["post"])
        if case["kind"] == "xwfail":
            nontrivial = "delivered=1" in out
            return CaseInfo(nontrivial, ["kind_xwfail", "fault_delivered" if nontrivial else "copy_complete_then_released"])
        if case["kind"] == "failcopy":
            nontrivial = "delivered=1" in out
            return CaseInfo(nontrivial, ["kind_failcopy", "fault_delivered" if nontrivial else "copy_complete_then_released"])
        return CaseInfo(nontrivial, ["kind_" + case["kind"]] + (["drop_%s_first" % case["drop_first"]] if case["kind"] == "readers" else []))


def strat(tier, opts):
    return cases(tier)


def main(tier, seed, scale=1.0):
    vbuild.build("asan")
    vbuild.build("plain")
    vbuild.build("allocfault")
    binp = harness()
    n = int((12000 if tier == "quick" else 200000) * scale)
    res = Result(PROP)
    with Scratch("c19pool") as pd:
        opts = {"prop": PROP, "bin": binp, "bin_fault": harness_fault(), "pool_dir": os.path.join(pd, "pool")}
        c10.get_pool(opts)
        vcommon.run_corpus(PROP, check_case, opts, res)
        for d in vcommon.run_shards("c19", "check_case", "strat", n, seed, tier, opts):
            res.merge_shard(d)
    res.rule = ("Hypothesis programs: 0-12 operations before sqfs_copy() of every reader object, 2-24 interleaved operations on original and copy, "
                "release of either object at a random point with the survivor used afterwards; compressor copies (gzip, lzma, xz, lz4, zstd, both "
                "directions, with compression history and option sets) and xattr writer copies (0-40 sets before, 0-10 on the original only, 0-40 after); "
                "copies of the reader set and of an xattr writer that run out of memory at the k-th allocation (k=1..60), after which the original is compared with a twin; "
                "non-trivial = >=1 state-building operation before the copy and >=1 operation on each object after it; oracle = twin object with "
                "the same history answers identically, flushed bytes identical, ASan clean in both release orders")
    res.assumptions = ["images from the C10 pool (undamaged ones)", "digests are FNV-1a over payloads"]
    res.extra["min_evaluations"] = n // 3
    return res


def replay(path):
    vbuild.build("asan")
    vbuild.build("plain")
    vbuild.build("allocfault")
    binp = harness()
    with Scratch("c19pool") as pd:
        return vcommon.replay_case(PROP, check_case, path, {"bin": binp, "bin_fault": harness_fault(), "pool_dir": os.path.join(pd, "pool")})
