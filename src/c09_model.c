/* c09_model - model-based check of the thread pool interface (include/util/threadpool.h) over operation SEQUENCES:
 * the serial reference pool (thread_pool_create_serial) and the pthread pool (thread_pool_create, native scheduling) are
 * driven by generated programs of submit / dequeue / get_status calls and compared with a FIFO model (C09).
 *
 * stdin: one program per line   "<impl> <failmask-hex> <prog>"     impl = 0: serial pool, W >= 1: pthread pool with W workers
 *        prog: S submit the next item | D dequeue | G get_status     (after the program the harness drains and destroys)
 * stdout per line: "OK <items> <dequeues>"  or  "FAIL <message>"
 *
 * Oracle (only what the header promises):
 *   - dequeue returns NULL only if nothing is in the pipeline (no failure so far) or after a worker failure;
 *   - the items come back in submission order, none twice, none that was not submitted; without a failure none is skipped
 *     and every item has been processed by the worker exactly once, with the user pointer of a worker, before it comes back;
 *   - once a worker has failed and the failure was observable (the failing item or NULL came back), get_status returns the
 *     worker's value and submit fails; without a failure get_status is 0 and submit succeeds;
 *   - after the drain nothing is left: every accepted item of a failure-free program came back.
 */
#include "config.h"
#include "util/threadpool.h"

#include <stdio.h>
#include <stdlib.h>
#include <string.h>
#include <pthread.h>

#define MAXN 64

static int items[MAXN];
static int processed[MAXN];
static int bad_user;
static unsigned long long failmask;
static pthread_mutex_t mtx = PTHREAD_MUTEX_INITIALIZER;
static int user_tag[8];

static int worker(void *user, void *ptr)
{
	int idx = *(int *)ptr;

	pthread_mutex_lock(&mtx);
	processed[idx] += 1;
	if (user == NULL || (int *)user < user_tag || (int *)user >= user_tag + 8)
		bad_user = 1;
	pthread_mutex_unlock(&mtx);
	return ((failmask >> idx) & 1) ? 1000 + idx : 0;
}

static int run(int impl, const char *prog, char *msg, size_t msglen, int *n_items, int *n_deq)
{
	thread_pool_t *p = impl == 0 ? thread_pool_create_serial(worker) : thread_pool_create((size_t)impl, worker);
	int submitted = 0, accepted = 0, next_expected = 0, outstanding = 0, failure_seen = 0, fail_value = 0;
	int first_fail = -1, drain = 0, guard = 0;
	size_t w, i;
	const char *c;

	if (p == NULL) {
		snprintf(msg, msglen, "pool cannot be created");
		return -1;
	}
	memset(processed, 0, sizeof(processed));
	bad_user = 0;
	for (i = 0; i < MAXN; ++i)
		items[i] = (int)i;
	for (i = 0; i < MAXN; ++i)
		if ((failmask >> i) & 1) {
			first_fail = (int)i;
			break;
		}
	w = p->get_worker_count(p);
	if (w < 1 || (impl > 0 && w != (size_t)impl)) {
		snprintf(msg, msglen, "get_worker_count = %zu", w);
		goto fail;
	}
	for (i = 0; i < w && i < 8; ++i)
		p->set_worker_ptr(p, i, &user_tag[i]);

	for (c = prog; ; c += (*c != '\0')) {
		char op = *c;

		if (op == '\0') {
			/* drain */
			drain = 1;
			op = 'D';
			if (++guard > 4 * MAXN) {
				snprintf(msg, msglen, "drain does not end: dequeue keeps returning items");
				goto fail;
			}
		}
		if (op == 'S') {
			int ret;

			if (submitted >= MAXN)
				continue;
			ret = p->submit(p, &items[submitted]);
			if (ret == 0) {
				if (failure_seen) {
					snprintf(msg, msglen, "submit of item %d succeeds although a worker failure was already reported", submitted);
					goto fail;
				}
				if (accepted != submitted) {
					snprintf(msg, msglen, "internal: accepted != submitted");
					goto fail;
				}
				accepted += 1;
				outstanding += 1;
			} else if (first_fail < 0 || first_fail >= submitted) {
				snprintf(msg, msglen, "submit of item %d fails (%d) although no worker can have failed", submitted, ret);
				goto fail;
			} else {
				/* refused: later submits are refused too; the item is not in the pipeline */
				failure_seen = 1;
			}
			if (ret == 0)
				submitted += 1;
			else
				continue;
		} else if (op == 'D') {
			int *got = p->dequeue(p);

			*n_deq += 1;
			if (got == NULL) {
				int st = p->get_status(p);

				if (st != 0) {
					if (first_fail < 0 || first_fail >= accepted) {
						snprintf(msg, msglen, "status %d without a failing item in the pipeline", st);
						goto fail;
					}
					failure_seen = 1;
					fail_value = st;
					if (drain)
						break;
					continue;
				}
				if (outstanding != 0) {
					snprintf(msg, msglen, "dequeue returns NULL with status 0 while %d item(s) are in the pipeline (next expected: %d)", outstanding, next_expected);
					goto fail;
				}
				if (drain)
					break;
				continue;
			}
			if (got < items || got >= items + MAXN) {
				snprintf(msg, msglen, "dequeue returns a pointer that was never submitted");
				goto fail;
			}
			{
				int idx = (int)(got - items);

				if (idx >= accepted) {
					snprintf(msg, msglen, "dequeue returns item %d which was not submitted yet", idx);
					goto fail;
				}
				if (idx < next_expected) {
					snprintf(msg, msglen, "item %d handed back twice or out of order (expected %d)", idx, next_expected);
					goto fail;
				}
				if (idx > next_expected && (first_fail < 0 || first_fail >= idx)) {
					snprintf(msg, msglen, "item %d handed back where item %d was due (no worker failure before it): item lost or order broken", idx, next_expected);
					goto fail;
				}
				pthread_mutex_lock(&mtx);
				if (processed[idx] > 1 || (processed[idx] != 1 && (first_fail < 0 || first_fail >= idx))) {
					int k = processed[idx];
					pthread_mutex_unlock(&mtx);
					snprintf(msg, msglen, "item %d handed back after being processed %d times", idx, k);
					goto fail;
				}
				pthread_mutex_unlock(&mtx);
				outstanding -= 1 + (idx - next_expected);
				next_expected = idx + 1;
				if ((failmask >> idx) & 1) {
					int st = p->get_status(p);

					if (st == 0) {
						snprintf(msg, msglen, "failing item %d came back but get_status is 0", idx);
						goto fail;
					}
					failure_seen = 1;
					fail_value = st;
				}
			}
		} else if (op == 'G') {
			int st = p->get_status(p);

			if (st != 0 && (first_fail < 0 || first_fail >= accepted)) {
				snprintf(msg, msglen, "get_status = %d although no failing item was submitted", st);
				goto fail;
			}
			if (st != 0 && (st < 1000 || st >= 1000 + MAXN || !((failmask >> (st - 1000)) & 1))) {
				snprintf(msg, msglen, "get_status = %d is not the value of a failing worker call", st);
				goto fail;
			}
			if (st == 0 && failure_seen) {
				snprintf(msg, msglen, "get_status is 0 again after the failure %d was reported", fail_value);
				goto fail;
			}
			if (st != 0) {
				failure_seen = 1;
				fail_value = st;
			}
		}
	}
	if (first_fail < 0 || first_fail >= accepted) {
		if (next_expected != accepted) {
			snprintf(msg, msglen, "%d item(s) accepted, only %d handed back by the end of the drain", accepted, next_expected);
			goto fail;
		}
		if (p->get_status(p) != 0) {
			snprintf(msg, msglen, "status %d at the end of a failure-free program", p->get_status(p));
			goto fail;
		}
	}
	pthread_mutex_lock(&mtx);
	for (i = 0; i < MAXN; ++i) {
		if (processed[i] > 1 || (processed[i] == 1 && (int)i >= accepted)) {
			pthread_mutex_unlock(&mtx);
			snprintf(msg, msglen, "worker ran %d times on item %zu", processed[i], i);
			goto fail;
		}
	}
	if (bad_user) {
		pthread_mutex_unlock(&mtx);
		snprintf(msg, msglen, "worker called with a user pointer that was not set for any worker");
		goto fail;
	}
	pthread_mutex_unlock(&mtx);
	p->destroy(p);
	*n_items = accepted;
	return 0;
fail:
	p->destroy(p);
	return -1;
}

int main(void)
{
	char line[4096], prog[4096], msg[512];
	int impl;

	while (fgets(line, sizeof(line), stdin) != NULL) {
		int n_items = 0, n_deq = 0;

		prog[0] = '\0';
		if (sscanf(line, "%d %llx %4000s", &impl, &failmask, prog) < 2)
			continue;
		if (run(impl, prog, msg, sizeof(msg), &n_items, &n_deq) == 0)
			printf("OK %d %d\n", n_items, n_deq);
		else
			printf("FAIL %s\n", msg);
		fflush(stdout);
	}
	return 0;
}
