/* fz_packer - libFuzzer target for the untrusted inputs of the packers (C07).
 * The first input byte selects the parser:
 *   0,1: tar stream  -> tar_open_stream (codec auto detection + xfrm wrappers) -> the loop of tar2sqfs' process_tarball
 *        re-implemented over the public pieces: entries into an fstree (hard links included), payload pulled,
 *        xattrs and link targets read -> fstree_post_process.  In-target oracle: the iterator never yields after an
 *        error or EOF; after a successful post-process every hard link resolves to a non-directory.
 *   2  : gensquashfs pack file  (fstree_from_file_stream, glob lines are pointed at an empty directory) -> post-process
 *   3  : sort file over a fixed 12 file tree (fstree_sort_files)
 *   4  : xattr map file (xattr_open_map_file through a memfd path, applied to a few paths)
 * The second byte picks the istream buffer size, so that refill boundaries move.
 */
#define _GNU_SOURCE
#include "config.h"
#include "common.h"
#include "fstree.h"
#include "tar/tar.h"
#include "sqfs/error.h"
#include "sqfs/io.h"
#include "sqfs/xattr.h"
#include "sqfs/xattr_writer.h"
#include "sqfs/dir_entry.h"
#include "mkfs.h"

#include <stdint.h>
#include <stdio.h>
#include <stdlib.h>
#include <string.h>
#include <unistd.h>
#include <sys/mman.h>
#include <fcntl.h>

static unsigned long st_execs, st_tar_entries, st_tar_ok, st_pack_ok, st_sort_ok, st_xattr_ok, st_first_ok;

static void dump_stats(void)
{
	const char *p = getenv("VERIF_FZ_STATS");
	FILE *f;
	if (!p)
		return;
	f = fopen(p, "w");
	if (f) {
		fprintf(f, "{\"execs\": %lu, \"tar_entries\": %lu, \"tar_ok\": %lu, \"pack_ok\": %lu, \"sort_ok\": %lu, \"xattr_ok\": %lu, \"first_ok\": %lu}\n",
			st_execs, st_tar_entries, st_tar_ok, st_pack_ok, st_sort_ok, st_xattr_ok, st_first_ok);
		fclose(f);
	}
}

static void oracle_fail(const char *why)
{
	fprintf(stderr, "ORACLE-VIOLATION: %s\n", why);
	dump_stats();
	__builtin_trap();
}

static void check_links(const tree_node_t *n, int depth)
{
	if (depth > 4000)
		return;
	if (S_ISLNK(n->mode) && (n->flags & FLAG_LINK_IS_HARD)) {
		if (n->data.target_node == NULL)
			oracle_fail("hard link without target after post-process");
		if (S_ISDIR(n->data.target_node->mode))
			oracle_fail("hard link to a directory after post-process");
		if (S_ISLNK(n->data.target_node->mode) && (n->data.target_node->flags & FLAG_LINK_IS_HARD))
			oracle_fail("hard link resolves to another link node");
	}
	if (S_ISDIR(n->mode)) {
		for (const tree_node_t *c = n->data.children; c != NULL; c = c->next)
			check_links(c, depth + 1);
	}
}

static void do_tar(const uint8_t *data, size_t size, size_t bufsz)
{
	sqfs_istream_t *in = istream_memory_create("fuzz.tar", bufsz, data, size);
	sqfs_dir_iterator_t *it;
	fstree_defaults_t fsd;
	fstree_t fs;
	int ended = 0, n = 0, failed = 0;
	static sqfs_u8 buf[8192];

	if (in == NULL)
		return;
	it = tar_open_stream(in, NULL);
	sqfs_drop(in);
	if (it == NULL)
		return;
	if (parse_fstree_defaults(&fsd, NULL) || fstree_init(&fs, &fsd)) {
		sqfs_drop(it);
		return;
	}
	for (;;) {
		sqfs_dir_entry_t *ent = NULL;
		sqfs_xattr_t *xattr = NULL;
		char *link = NULL;
		int ret = it->next(it, &ent);

		if (ret != 0) {
			sqfs_dir_entry_t *again = NULL;
			int ret2 = it->next(it, &again);
			if (ret2 == 0)
				oracle_fail("tar iterator yields an entry after it reported an error / end of archive");
			failed = ret < 0;
			ended = 1;
			break;
		}
		if (++n > 3000) {
			sqfs_free(ent);
			break;
		}
		st_tar_entries++;
		if (n == 1)
			st_first_ok++;
		if (S_ISLNK(ent->mode) && it->read_link(it, &link) != 0) {
			sqfs_free(ent);
			failed = 1;
			break;
		}
		it->read_xattr(it, &xattr);
		if (ent->name[0] != '\0') {
			tree_node_t *node = fstree_add_generic(&fs, ent, link);
			(void)node;
		}
		if (S_ISREG(ent->mode)) {
			sqfs_istream_t *fin = NULL;
			if (it->open_file_ro(it, &fin) == 0) {
				sqfs_u64 total = 0;
				int err = 0;
				for (;;) {
					sqfs_s32 r = sqfs_istream_read(fin, buf, sizeof(buf));
					if (r < 0) {
						err = 1;
						break;
					}
					if (r == 0)
						break;
					total += r;
					if (total > (1u << 26))
						break;
				}
				/* (what a malformed sparse map delivers is not specified by the property; only valid
				   archives have a defined content, and those are compared in C04) */
				(void)err;
				sqfs_drop(fin);
			}
		}
		sqfs_xattr_list_free(xattr);
		free(link);
		sqfs_free(ent);
	}
	if (ended && !failed) {
		if (fstree_post_process(&fs) == 0) {
			check_links(fs.root, 0);
			st_tar_ok++;
		}
	}
	fstree_cleanup(&fs);
	sqfs_drop(it);
}

static char emptydir[300];

static void do_pack(const uint8_t *data, size_t size, size_t bufsz, unsigned int sel)
{
	sqfs_istream_t *in = istream_memory_create("fuzz.txt", bufsz, data, size);
	fstree_defaults_t fsd;
	options_t opt;
	fstree_t fs;

	if (in == NULL)
		return;
	memset(&opt, 0, sizeof(opt));
	opt.dirscan_flags = (sel & 0x10) ? 0 : (DIR_SCAN_KEEP_UID | DIR_SCAN_KEEP_GID | DIR_SCAN_KEEP_MODE);
	opt.force_uid_value = 7;
	opt.force_gid_value = 9;
	opt.packdir = emptydir;
	if (parse_fstree_defaults(&fsd, NULL) || fstree_init(&fs, &fsd)) {
		sqfs_drop(in);
		return;
	}
	if (fstree_from_file_stream(&fs, in, &opt) == 0) {
		st_first_ok++;
		if (fstree_post_process(&fs) == 0) {
			check_links(fs.root, 0);
			st_pack_ok++;
		}
	}
	fstree_cleanup(&fs);
	sqfs_drop(in);
}

static void do_sort(const uint8_t *data, size_t size, size_t bufsz)
{
	static const char *names[] = { "a", "b/c", "b/d e", "b/f\"g", "h\\i", "dir/sub/x", "dir/sub/y", "dir/z", "usr/bin/sh", "usr/lib/libc.so.6", "usr/lib/ld.so", "z" };
	sqfs_istream_t *in = istream_memory_create("fuzz.sort", bufsz, data, size);
	fstree_defaults_t fsd;
	fstree_t fs;

	if (in == NULL)
		return;
	if (parse_fstree_defaults(&fsd, NULL) || fstree_init(&fs, &fsd)) {
		sqfs_drop(in);
		return;
	}
	for (size_t i = 0; i < sizeof(names) / sizeof(names[0]); ++i) {
		sqfs_dir_entry_t *ent = sqfs_dir_entry_create(names[i], S_IFREG | 0644, 0);
		if (ent != NULL) {
			fstree_add_generic(&fs, ent, NULL);
			free(ent);
		}
	}
	if (fstree_post_process(&fs) == 0) {
		size_t before = 0, after = 0;
		for (tree_node_t *n = fs.files; n != NULL; n = n->next_by_type)
			++before;
		if (fstree_sort_files(&fs, in) == 0) {
			st_sort_ok++;
			st_first_ok++;
			for (tree_node_t *n = fs.files; n != NULL; n = n->next_by_type)
				if (++after > before)
					break;
			if (after != before)
				oracle_fail("sorting changed the number of files in the list");
		}
	}
	fstree_cleanup(&fs);
	sqfs_drop(in);
}

static void do_xattr(const uint8_t *data, size_t size)
{
	static const char *paths[] = { "/", "/dev", "/dev/rfkill", "/a b", "/x" };
	char path[64];
	int fd = memfd_create("xattr", 0);
	void *map;

	if (fd < 0)
		return;
	if (write(fd, data, size) != (ssize_t)size) {
		close(fd);
		return;
	}
	snprintf(path, sizeof(path), "/proc/self/fd/%d", fd);
	map = xattr_open_map_file(path);
	if (map != NULL) {
		sqfs_xattr_writer_t *xwr = sqfs_xattr_writer_create(0);
		st_xattr_ok++;
		st_first_ok++;
		for (size_t i = 0; xwr != NULL && i < sizeof(paths) / sizeof(paths[0]); ++i) {
			char *p = strdup(paths[i]);
			sqfs_u32 idx;
			if (sqfs_xattr_writer_begin(xwr, 0) == 0) {
				xattr_apply_map_file(p, map, xwr);
				sqfs_xattr_writer_end(xwr, &idx);
			}
			free(p);
		}
		sqfs_drop(xwr);
		xattr_close_map_file(map);
	}
	close(fd);
}

static void remove_emptydir(void)
{
	rmdir(emptydir);
}

int LLVMFuzzerInitialize(int *argc, char ***argv)
{
	(void)argc; (void)argv;
	{
		/* an empty directory for glob lines to scan; removed again at exit */
		const char *t = getenv("TMPDIR");
		snprintf(emptydir, sizeof(emptydir), "%s/fz_packer_XXXXXX", (t && strlen(t) < 200) ? t : "/tmp");
		if (mkdtemp(emptydir) == NULL)
			strcpy(emptydir, "/nonexistent");
		else
			atexit(remove_emptydir);
	}
	if (freopen("/dev/null", "w", stdout) == NULL) {}
	if (!getenv("VERIF_FZ_KEEP_STDERR")) {
		/* the parsers print a diagnostic for every rejected input; sanitizer reports go to ASAN_OPTIONS=log_path */
		int fd = open("/dev/null", O_WRONLY);
		if (fd >= 0) {
			dup2(fd, 2);
			close(fd);
		}
	}
	atexit(dump_stats);
	return 0;
}

int LLVMFuzzerTestOneInput(const uint8_t *bytes, size_t size)
{
	static const size_t bufsizes[8] = { 1, 7, 512, 513, 4096, 65536, 100, 1024 };
	unsigned int sel;
	size_t bufsz;

	if ((++st_execs & 0x3FF) == 0)
		dump_stats();
	if (size < 2)
		return 0;
	sel = bytes[0];
	bufsz = bufsizes[bytes[1] & 7];
	bytes += 2;
	size -= 2;
	switch (sel & 7) {
	case 0:
	case 1:
		do_tar(bytes, size, bufsz);
		break;
	case 2:
		do_pack(bytes, size, bufsz, sel);
		break;
	case 3:
		do_sort(bytes, size, bufsz);
		break;
	case 4:
		do_xattr(bytes, size);
		break;
	default:
		do_tar(bytes, size, bufsz);
		break;
	}
	return 0;
}
