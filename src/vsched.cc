// vsched - controlled scheduler + client programs for the worker pool (C09).
//
// Every logical thread runs on a real pthread, but exactly one runs at a time; at every intercepted synchronisation
// operation (and at worker callback entry/exit) the running thread consults a *choice sequence* to decide who runs next.
// cond_wait may additionally be woken spuriously (a choice).  No runnable thread while some thread is unfinished = deadlock.
//
//   vsched run <W> <N> <failmask> <prog> <bound> <choices...>     one execution (in this process); prints a JSON line
//   vsched dfs <W> <N> <failmask> <prog> <bound> <maxexec>   stateless DFS over all schedules with at most <bound>
//                                                                  preemptions (bound<0: unbounded); every execution is a fork
//   vsched rand <W> <N> <failmask> <prog> <seed> <count>          random schedules (uniform choice among enabled, spurious wake-ups)
//
// <prog>: string over {S,D,G}: S = submit next item, D = dequeue, G = get_status; afterwards the client drains (dequeue until
// NULL) and destroys the pool.  <failmask>: bit i set = the worker callback fails (returns i+1) for item i.
#include <pthread.h>
#include <unistd.h>
#include <sys/wait.h>
#include <cstdio>
#include <cstdlib>
#include <cstring>
#include <string>
#include <vector>
#include <map>
#include <random>

#include "vsched_shim.h"
#undef pthread_mutex_init
#undef pthread_mutex_destroy
#undef pthread_mutex_lock
#undef pthread_mutex_unlock
#undef pthread_cond_init
#undef pthread_cond_destroy
#undef pthread_cond_wait
#undef pthread_cond_broadcast
#undef pthread_cond_signal
#undef pthread_create
#undef pthread_join
#undef pthread_sigmask

extern "C" {
#include "util/threadpool.h"
}

// ------------------------------------------------------------------------------------------------ scheduler
enum State { RUNNABLE, B_MUTEX, B_COND, B_JOIN, FINISHED };

struct LThread {
	int id;
	State st = RUNNABLE;
	void *obj = nullptr;        // mutex / cond / joined thread it waits for
	pthread_mutex_t *remutex = nullptr;
	pthread_t real;
	pthread_cond_t cv;
	void *(*fn)(void *) = nullptr;
	void *arg = nullptr;
	bool spurious = false;      // woken from cond_wait without a signal
	bool holds_lock = false;
};

static pthread_mutex_t G = PTHREAD_MUTEX_INITIALIZER;
static std::vector<LThread *> threads;
static int cur = 0;
static std::map<void *, int> mutex_owner;   // -1 free
static std::vector<int> choices;            // prefix to follow
static size_t choice_pos = 0;
struct Step { int chosen, enabled, preempt; };
static std::vector<Step> trace;
static int preemptions = 0, preempt_bound = -1, spurious_budget = 1;
static bool random_mode = false;
static std::mt19937_64 rng;
static int result_fd = 1;
static long context_switches = 0, real_preemptions = 0;

static void report_and_exit(const char *kind, const char *msg)
{
	std::string s = "{\"result\": \"";
	s += kind;
	s += "\", \"msg\": \"";
	s += msg;
	s += "\", \"switches\": " + std::to_string(context_switches) + ", \"preemptions\": " + std::to_string(real_preemptions) + ", \"trace\": [";
	for (size_t i = 0; i < trace.size(); ++i) {
		if (i)
			s += ",";
		s += "[" + std::to_string(trace[i].chosen) + "," + std::to_string(trace[i].enabled) + "," + std::to_string(trace[i].preempt) + "]";
	}
	s += "]}\n";
	if (write(result_fd, s.data(), s.size()) < 0) {}
	_exit(strcmp(kind, "ok") == 0 ? 0 : 3);
}

static int self_id()
{
	pthread_t me = pthread_self();
	for (auto *t : threads)
		if (pthread_equal(t->real, me))
			return t->id;
	return 0;
}

// pick the next thread to run; called with G held by the thread that is at a scheduling point
static void schedule(int me)
{
	std::vector<int> en;
	for (auto *t : threads) {
		if (t->st == RUNNABLE)
			en.push_back(t->id);
	}
	// spurious wake-up of a thread blocked in cond_wait is an additional alternative
	std::vector<int> sp;
	if (spurious_budget > 0)
		for (auto *t : threads)
			if (t->st == B_COND)
				sp.push_back(t->id);
	size_t total = en.size() + sp.size();
	if (en.empty() && sp.empty()) {
		bool all_done = true;
		for (auto *t : threads)
			if (t->st != FINISHED)
				all_done = false;
		if (all_done)
			return;
		std::string who;
		for (auto *t : threads)
			if (t->st != FINISHED)
				who += " T" + std::to_string(t->id) + (t->st == B_MUTEX ? ":mutex" : t->st == B_COND ? ":cond" : t->st == B_JOIN ? ":join" : ":?");
		report_and_exit("deadlock", ("no runnable thread;" + who).c_str());
	}
	// canonical order: the current thread first (choice 0 = no preemption), then the others by id, then spurious wake-ups
	std::vector<int> order;
	bool me_enabled = false;
	for (int id : en)
		if (id == me)
			me_enabled = true;
	if (me_enabled)
		order.push_back(me);
	for (int id : en)
		if (id != me)
			order.push_back(id);
	size_t nreal = order.size();
	for (int id : sp)
		order.push_back(id);
	int pick = 0;
	int n_alt = (int)order.size();
	if (me_enabled && preempt_bound >= 0 && preemptions >= preempt_bound)
		n_alt = 1;     // no more preemptions allowed: the current thread continues
	if (choice_pos < choices.size()) {
		pick = choices[choice_pos] % n_alt;
	} else if (random_mode) {
		pick = (int)(rng() % (unsigned)n_alt);
		// make spurious wake-ups rarer
		if (pick >= (int)nreal && (rng() % 4) != 0)
			pick = (int)(rng() % (unsigned)(nreal ? nreal : 1));
		if (nreal == 0)
			pick = (int)(rng() % (unsigned)n_alt);
	} else {
		pick = 0;
	}
	choice_pos++;
	trace.push_back({pick, n_alt, me_enabled ? 1 : 0});
	int next = order[pick];
	if (me_enabled && next != me) {
		preemptions++;
		if (!threads[me]->holds_lock)
			real_preemptions++;
	}
	if ((size_t)pick >= nreal) {
		spurious_budget--;
		threads[next]->st = RUNNABLE;
		threads[next]->spurious = true;
	}
	if (next != me)
		context_switches++;
	cur = next;
	pthread_cond_signal(&threads[next]->cv);
}

static void wait_turn(int me)
{
	while (cur != me)
		pthread_cond_wait(&threads[me]->cv, &G);
}

// a scheduling point of a thread that stays runnable
static void yield_point()
{
	pthread_mutex_lock(&G);
	int me = self_id();
	schedule(me);
	wait_turn(me);
	pthread_mutex_unlock(&G);
}

static void block_and_switch(int me)
{
	schedule(me);
	wait_turn(me);
}

extern "C" {

int vs_mutex_init(pthread_mutex_t *m, const pthread_mutexattr_t *) { pthread_mutex_lock(&G); mutex_owner[m] = -1; pthread_mutex_unlock(&G); return 0; }
int vs_mutex_destroy(pthread_mutex_t *m) { pthread_mutex_lock(&G); mutex_owner.erase(m); pthread_mutex_unlock(&G); return 0; }

int vs_mutex_lock(pthread_mutex_t *m)
{
	pthread_mutex_lock(&G);
	int me = self_id();
	schedule(me);          // others may run before we try
	wait_turn(me);
	while (mutex_owner[m] != -1) {
		threads[me]->st = B_MUTEX;
		threads[me]->obj = m;
		block_and_switch(me);
	}
	mutex_owner[m] = me;
	threads[me]->holds_lock = true;
	pthread_mutex_unlock(&G);
	return 0;
}

static void release_mutex(pthread_mutex_t *m, int me)
{
	mutex_owner[m] = -1;
	threads[me]->holds_lock = false;
	for (auto *t : threads)
		if (t->st == B_MUTEX && t->obj == m)
			t->st = RUNNABLE;
}

int vs_mutex_unlock(pthread_mutex_t *m)
{
	pthread_mutex_lock(&G);
	int me = self_id();
	release_mutex(m, me);
	/* no scheduling point here: the next visible operation of this thread has its own */
	pthread_mutex_unlock(&G);
	return 0;
}

int vs_cond_init(pthread_cond_t *, const pthread_condattr_t *) { return 0; }
int vs_cond_destroy(pthread_cond_t *) { return 0; }

int vs_cond_wait(pthread_cond_t *c, pthread_mutex_t *m)
{
	pthread_mutex_lock(&G);
	int me = self_id();
	release_mutex(m, me);
	threads[me]->st = B_COND;
	threads[me]->obj = c;
	block_and_switch(me);
	// woken (by broadcast/signal or spuriously): re-acquire the mutex
	while (mutex_owner[m] != -1) {
		threads[me]->st = B_MUTEX;
		threads[me]->obj = m;
		block_and_switch(me);
	}
	mutex_owner[m] = me;
	threads[me]->holds_lock = true;
	pthread_mutex_unlock(&G);
	return 0;
}

int vs_cond_broadcast(pthread_cond_t *c)
{
	pthread_mutex_lock(&G);
	for (auto *t : threads)
		if (t->st == B_COND && t->obj == c)
			t->st = RUNNABLE;
	pthread_mutex_unlock(&G);
	return 0;
}

int vs_cond_signal(pthread_cond_t *c)
{
	pthread_mutex_lock(&G);
	for (auto *t : threads)
		if (t->st == B_COND && t->obj == c) {
			t->st = RUNNABLE;
			break;
		}
	pthread_mutex_unlock(&G);
	return 0;
}

static void *trampoline(void *p)
{
	LThread *t = (LThread *)p;
	pthread_mutex_lock(&G);
	wait_turn(t->id);
	pthread_mutex_unlock(&G);
	t->fn(t->arg);
	pthread_mutex_lock(&G);
	t->st = FINISHED;
	for (auto *o : threads)
		if (o->st == B_JOIN && o->obj == t)
			o->st = RUNNABLE;
	schedule(t->id);
	pthread_mutex_unlock(&G);
	return nullptr;
}

int vs_create(pthread_t *out, const pthread_attr_t *, void *(*fn)(void *), void *arg)
{
	pthread_mutex_lock(&G);
	LThread *t = new LThread();
	t->id = (int)threads.size();
	t->fn = fn;
	t->arg = arg;
	pthread_cond_init(&t->cv, nullptr);
	threads.push_back(t);
	pthread_create(&t->real, nullptr, trampoline, t);
	*out = t->real;
	pthread_mutex_unlock(&G);
	return 0;
}

int vs_join(pthread_t th, void **)
{
	pthread_mutex_lock(&G);
	int me = self_id();
	LThread *t = nullptr;
	for (auto *o : threads)
		if (pthread_equal(o->real, th))
			t = o;
	while (t && t->st != FINISHED) {
		threads[me]->st = B_JOIN;
		threads[me]->obj = t;
		block_and_switch(me);
	}
	pthread_mutex_unlock(&G);
	return 0;
}

int vs_sigmask(int, const sigset_t *, sigset_t *) { return 0; }

}

// ------------------------------------------------------------------------------------------------ client program
struct Item { int idx; int processed = 0; int worker = -1; int dequeued = 0; };
struct WorkerCtx { int id; int in_use = 0; };
static std::vector<Item> items;
static std::vector<WorkerCtx> ctxs;
static unsigned failmask;
static std::string violation;

static void inv_fail(const std::string &s)
{
	if (violation.empty())
		violation = s;
	report_and_exit("violation", violation.c_str());
}

static int worker_cb(void *user, void *work)
{
	WorkerCtx *c = (WorkerCtx *)user;
	Item *it = (Item *)work;
	if (c == nullptr)
		inv_fail("worker callback without its context");
	if (c->in_use)
		inv_fail("per-worker context used by two callbacks at once");
	c->in_use = 1;
	yield_point();             // the callback takes "time": others may run
	it->processed++;
	if (it->processed > 1)
		inv_fail("work item processed twice");
	it->worker = c->id;
	yield_point();
	c->in_use = 0;
	return (failmask >> it->idx) & 1 ? it->idx + 1 : 0;
}

static int run_client(int W, int N, const std::string &prog)
{
	LThread *main_t = new LThread();
	main_t->id = 0;
	main_t->real = pthread_self();
	pthread_cond_init(&main_t->cv, nullptr);
	threads.push_back(main_t);
	cur = 0;

	items.resize(N);
	for (int i = 0; i < N; ++i)
		items[i].idx = i;
	ctxs.resize(W);
	thread_pool_t *pool = thread_pool_create(W, worker_cb);
	if (!pool)
		report_and_exit("error", "pool creation failed");
	if ((int)pool->get_worker_count(pool) != W)
		inv_fail("worker count differs from the requested one");
	for (int i = 0; i < W; ++i) {
		ctxs[i].id = i;
		pool->set_worker_ptr(pool, i, &ctxs[i]);
	}
	int submitted = 0, dequeued = 0;
	bool failed_seen = false;
	auto do_dequeue = [&]() {
		Item *it = (Item *)pool->dequeue(pool);
		if (it == nullptr) {
			int st = pool->get_status(pool);
			if (st == 0 && dequeued < submitted)
				inv_fail("dequeue returned NULL although items are in the pipeline and no failure was reported");
			if (st != 0)
				failed_seen = true;
			return false;
		}
		if (it->dequeued)
			inv_fail("work item handed back twice");
		it->dequeued = 1;
		if (!it->processed)
			inv_fail("work item handed back before it was processed");
		if (it->idx != dequeued && !failed_seen && pool->get_status(pool) == 0)
			inv_fail("work items handed back out of submission order");
		if (it->idx < dequeued)
			inv_fail("work items handed back out of submission order");
		dequeued = it->idx + 1;
		return true;
	};
	for (char op : prog) {
		if (op == 'S' && submitted < N) {
			int r = pool->submit(pool, &items[submitted]);
			if (r != 0) {
				if (pool->get_status(pool) == 0)
					inv_fail("submit failed although no worker reported a failure");
				failed_seen = true;
			} else {
				submitted++;
			}
		} else if (op == 'D') {
			do_dequeue();
		} else if (op == 'G') {
			if (pool->get_status(pool) != 0)
				failed_seen = true;
		}
	}
	// drain
	for (int guard = 0; guard < 4 * N + 4; ++guard)
		if (!do_dequeue())
			break;
	int st = pool->get_status(pool);
	if (st == 0) {
		for (int i = 0; i < submitted; ++i) {
			if (items[i].processed != 1)
				inv_fail("a submitted item was not processed exactly once");
			if (!items[i].dequeued)
				inv_fail("a submitted item was never handed back");
		}
		if (failmask & ((1u << submitted) - 1))
			inv_fail("a worker failure was not reported by get_status");
	} else {
		bool any = false;
		for (int i = 0; i < submitted; ++i)
			if (((failmask >> i) & 1) && items[i].processed)
				any = true;
		if (!any)
			inv_fail("failure status without a failing item having been processed");
	}
	pool->destroy(pool);
	for (auto *t : threads)
		if (t->id != 0 && t->st != FINISHED)
			inv_fail("destroy returned while a worker thread is still alive");
	report_and_exit("ok", "");
	return 0;
}

// ------------------------------------------------------------------------------------------------ drivers
static std::string run_forked(int W, int N, unsigned fm, const std::string &prog, int bound, const std::vector<int> &prefix, bool rnd, unsigned long long seed, int &status)
{
	int p[2];
	if (pipe(p) != 0)
		exit(2);
	pid_t pid = fork();
	if (pid == 0) {
		close(p[0]);
		result_fd = p[1];
		choices = prefix;
		preempt_bound = bound;
		failmask = fm;
		random_mode = rnd;
		rng.seed(seed);
		alarm(20);
		run_client(W, N, prog);
		_exit(0);
	}
	close(p[1]);
	std::string out;
	char buf[4096];
	ssize_t n;
	while ((n = read(p[0], buf, sizeof(buf))) > 0)
		out.append(buf, n);
	close(p[0]);
	waitpid(pid, &status, 0);
	return out;
}

static std::vector<Step> parse_trace(const std::string &s)
{
	std::vector<Step> t;
	size_t pos = s.find("\"trace\": [");
	if (pos == std::string::npos)
		return t;
	pos += 10;
	while (pos < s.size() && s[pos] != ']') {
		if (s[pos] == '[') {
			int a, b, c;
			if (sscanf(s.c_str() + pos, "[%d,%d,%d]", &a, &b, &c) == 3)
				t.push_back({a, b, c});
			pos = s.find(']', pos) + 1;
		} else {
			pos++;
		}
	}
	return t;
}

int main(int argc, char **argv)
{
	if (argc < 7) {
		fprintf(stderr, "usage\n");
		return 2;
	}
	std::string mode = argv[1];
	int W = atoi(argv[2]), N = atoi(argv[3]);
	unsigned fm = (unsigned)strtoul(argv[4], nullptr, 0);
	std::string prog = argv[5];
	if (mode == "run") {
		preempt_bound = atoi(argv[6]);
		for (int i = 7; i < argc; ++i)
			choices.push_back(atoi(argv[i]));
		failmask = fm;
		alarm(20);
		return run_client(W, N, prog);
	}
	if (mode == "rand") {
		unsigned long long seed = strtoull(argv[6], nullptr, 10);
		long count = atol(argv[7]);
		long done = 0, nontrivial = 0;
		for (long i = 0; i < count; ++i) {
			int status = 0;
			std::string out = run_forked(W, N, fm, prog, -1, {}, true, seed * 1000003ULL + i, status);
			done++;
			if (out.find("\"preemptions\": 0,") == std::string::npos)
				nontrivial++;
			if (out.find("\"result\": \"ok\"") == std::string::npos) {
				printf("FAIL %s", out.empty() ? "{\"result\": \"crash-or-timeout\"}\n" : out.c_str());
				printf("{\"mode\": \"rand\", \"executions\": %ld, \"nontrivial\": %ld, \"complete\": false}\n", done, nontrivial);
				return 1;
			}
		}
		printf("{\"mode\": \"rand\", \"executions\": %ld, \"nontrivial\": %ld, \"complete\": false}\n", done, nontrivial);
		return 0;
	}
	// dfs
	int bound = atoi(argv[6]);
	long maxexec = atol(argv[7]);
	std::vector<int> prefix;
	long execs = 0, nontrivial = 0;
	bool complete = false;
	for (;;) {
		int status = 0;
		std::string out = run_forked(W, N, fm, prog, bound, prefix, false, 0, status);
		execs++;
		std::vector<Step> tr = parse_trace(out);
		if (out.find("\"preemptions\": 0,") == std::string::npos)
			nontrivial++;
		if (out.find("\"result\": \"ok\"") == std::string::npos) {
			printf("FAIL %s", out.empty() ? "{\"result\": \"crash-or-timeout\"}\n" : out.c_str());
			printf("{\"mode\": \"dfs\", \"executions\": %ld, \"nontrivial\": %ld, \"complete\": false}\n", execs, nontrivial);
			return 1;
		}
		// backtrack: last position with an untried alternative
		int i = (int)tr.size() - 1;
		for (; i >= 0; --i) {
			if (tr[i].chosen + 1 < tr[i].enabled)
				break;
		}
		if (i < 0) {
			complete = true;
			break;
		}
		prefix.clear();
		for (int k = 0; k < i; ++k)
			prefix.push_back(tr[k].chosen);
		prefix.push_back(tr[i].chosen + 1);
		if (execs >= maxexec)
			break;
	}
	printf("{\"mode\": \"dfs\", \"executions\": %ld, \"nontrivial\": %ld, \"complete\": %s}\n", execs, nontrivial, complete ? "true" : "false");
	return 0;
}
