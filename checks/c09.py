"""C09 - worker pool: FIFO, exactly-once, deadlock-free under every interleaving.

lib/util/src/threadpool.c is compiled with -include src/vsched_shim.h, which routes every pthread mutex / condition
variable / create / join call to the controlled scheduler in src/vsched.cc: one logical thread runs at a time and a
choice sequence decides who runs next at every synchronisation operation and at worker-callback entry/exit; a thread in
cond_wait may also be woken spuriously.  Client programs (submit / dequeue / get_status sequences obeying the header's
contract, then drain + destroy) check the history invariants inside the execution: exactly-once processing on exactly
one worker, per-worker context never used concurrently, hand-back exactly once and in submission order, failure status
reported instead of blocking, destroy joins all workers.  No runnable thread while a thread is unfinished = deadlock.
Schedules: complete stateless DFS for the smallest configurations, preemption-bounded DFS for larger ones, random
schedules (with spurious wake-ups) beyond.

Operation sequences: src/c09_model.c drives the serial reference pool (threadpool_serial.c) and the pthread pool with
generated submit / dequeue / get_status programs (partial drains followed by further submits, failing items) and compares
every call with a FIFO model.
"""
import os, json, subprocess, random, time
import vcommon, vbuild
from vcommon import Result

PROP = "C09"


def harness():
    return vbuild.build_harness("vsched", "sched", ["src/vsched.cc"], cxx=True)


def model_harness():
    return vbuild.build_harness("c09_model", "asan", ["src/c09_model.c"])


def model_programs(tier, seed, scale=1.0):
    """operation sequences for src/c09_model.c: (impl, failmask, prog); impl 0 = serial reference pool, W = pthread pool"""
    rng = random.Random(seed * 7919 + 1)
    out = []
    for i in range(int((60000 if tier == "quick" else 2000000) * scale)):
        impl = rng.choice([0, 0, 0, 1, 2, 3, 4])
        N = rng.choice([1, 2, 3, 4, 5, 6, 8, 12, 20])
        ops, s, d = [], 0, 0
        wd = rng.choice([1, 2, 4])           # weight of D against S: long queues vs. eager draining
        while s < N and len(ops) < 6 * N:
            c = rng.choice("S" * 4 + "D" * wd + "G")
            ops.append(c)
            s += c == "S"
        ops += rng.choice(["", "D", "DD", "G"])
        fm = 0
        if rng.random() < 0.3:
            fm = 1 << rng.randrange(N)
            if rng.random() < 0.3:
                fm |= 1 << rng.randrange(N)
        out.append((impl, fm, "".join(ops)))
    return out


def model_nontrivial(prog):
    """a dequeue that leaves at least one item queued, followed by another submit (the queue is neither empty nor fresh)"""
    q = 0
    partial = False
    for c in prog:
        if c == "S":
            if partial:
                return True
            q += 1
        elif c == "D" and q > 0:
            q -= 1
            partial = q > 0
    return False


def run_model_chunk(args):
    binp, progs, limit = args
    inp = "".join("%d %x %s\n" % p for p in progs).encode()
    try:
        p = subprocess.run([binp], input=inp, stdout=subprocess.PIPE, stderr=subprocess.PIPE, timeout=limit)
        out, err, rc = p.stdout.decode(errors="replace").splitlines(), p.stderr.decode(errors="replace"), p.returncode
    except subprocess.TimeoutExpired as e:
        out, err, rc = (e.stdout or b"").decode(errors="replace").splitlines(), "", -99
    return dict(out=out, err=err[-3000:], rc=rc, n=len(progs))


def model_one(binp, prog, limit=60):
    o = run_model_chunk((binp, [prog], limit))
    if o["rc"] == -99:
        return None
    if o["out"] and o["out"][0].startswith("FAIL"):
        return o["out"][0][5:]
    if o["rc"] != 0:
        return "harness exit %s (sanitizer report): %s" % (o["rc"], " ".join(o["err"].split())[-600:])
    return ""


def model_shrink(binp, prog):
    """greedy deletion of single operations / failure bits while the program still fails"""
    impl, fm, ops = prog
    msg = model_one(binp, prog)
    changed = True
    rounds = 0
    while changed and rounds < 200:
        changed = False
        for i in range(len(ops)):
            rounds += 1
            cand = (impl, fm, ops[:i] + ops[i + 1:])
            m = model_one(binp, cand)
            if m:
                ops, msg, changed = cand[2], m, True
                break
    if fm and model_one(binp, (impl, 0, ops)):
        fm = 0
        msg = model_one(binp, (impl, 0, ops))
    return (impl, fm, ops), msg


def run_model(tier, seed, res, scale=1.0):
    binp = model_harness()
    progs = model_programs(tier, seed, scale)
    chunks = [progs[i::32] for i in range(32)]
    outs = vcommon.pmap(run_model_chunk, [(binp, c, 200 if tier == "quick" else 3000) for c in chunks if c], 16)
    failing = []
    for c, o in zip([c for c in chunks if c], outs):
        done = len(o["out"])
        res.evaluations += done
        for prog, line in zip(c, o["out"]):
            res.add_class("model_serial_pool" if prog[0] == 0 else "model_pthread_pool")
            if prog[1]:
                res.add_class("model_failing_item")
            if model_nontrivial(prog[2]):
                res.add_class("model_partial_drain_then_submit")
                res.nt_count_model = getattr(res, "nt_count_model", 0) + 1
            if line.startswith("FAIL"):
                failing.append(prog)
        if o["rc"] == -99:
            res.add_class("budget_stops")
        elif o["rc"] != 0 and done < len(c):
            failing.append(c[done])      # the harness died (sanitizer report) on this program
        elif o["rc"] != 0:
            # every program got its verdict, the report came at exit (LeakSanitizer: a work item or a pool that nobody owns any
            # more): bisect for a program that reproduces it alone
            part = list(c)
            while len(part) > 1:
                half = part[:len(part) // 2]
                part = half if run_model_chunk((binp, half, 600))["rc"] not in (0, -99) else part[len(part) // 2:]
            if part and model_one(binp, part[0]):
                failing.append(part[0])
                res.add_class("model_report_at_exit")
    seen = set()
    for prog in failing[:5]:
        small, msg = model_shrink(binp, prog)
        if not msg or small in seen:
            continue
        seen.add(small)
        case = dict(model=True, impl=small[0], failmask=small[1], prog=small[2], found_as=list(prog), fail=msg[:1500])
        what = "%s: program %s%s: %s" % ("serial pool" if small[0] == 0 else "pthread pool with %d workers" % small[0], small[2],
                                        (" failing item mask 0x%x" % small[1]) if small[1] else "", msg[:300])
        res.violations.append((what, vcommon.save_replay(PROP, case, what)))


def run_job(args):
    binp, mode, W, N, fm, prog, a, b, limit = args
    cmd = [binp, mode, str(W), str(N), str(fm), prog, str(a), str(b)]
    t0 = time.time()
    try:
        p = subprocess.run(cmd, stdout=subprocess.PIPE, stderr=subprocess.PIPE, timeout=limit)
        out = p.stdout.decode(errors="replace")
        rc = p.returncode
    except subprocess.TimeoutExpired as e:
        out = (e.stdout or b"").decode(errors="replace")
        rc = -99
    summ = None
    fail = None
    for line in out.splitlines():
        if line.startswith("FAIL "):
            fail = line[5:]
        elif line.startswith("{\"mode\""):
            summ = json.loads(line)
    return dict(mode=mode, W=W, N=N, fm=fm, prog=prog, a=a, b=b, rc=rc, summ=summ, fail=fail, wall=time.time() - t0)


def jobs(tier, seed, binp):
    J = []
    lim = 100 if tier == "quick" else 1500
    cap = 45000 if tier == "quick" else 900000
    # complete enumeration: one worker, up to 2 items (thorough: 3), every failure position
    for N, progs in ((1, ["SD", "SGD", "S"]), (2, ["SSDD", "SDSD", "SS", "SGSDD"])):
        for prog in progs:
            for fm in range(1 << N):
                J.append((binp, "dfs", 1, N, fm, prog, -1, cap, lim))
    if tier != "quick":
        for fm in (0, 1, 2, 4, 3):
            J.append((binp, "dfs", 1, 3, fm, "SSSDDD", -1, cap, lim))
        J.append((binp, "dfs", 2, 2, 0, "SSDD", -1, cap, lim))
        J.append((binp, "dfs", 2, 2, 1, "SSDD", -1, cap, lim))
    # preemption bounded
    bound = 2 if tier == "quick" else 3
    for W, N, prog in ((2, 2, "SSDD"), (2, 2, "SDSD"), (2, 3, "SSSDDD"), (2, 3, "SSDSDD"), (3, 3, "SSS"), (3, 2, "SSDD")):
        for fm in ([0, 1, 2] if N == 2 else [0, 1, 4]):
            J.append((binp, "dfs", W, N, fm, prog, bound, cap, lim))
    # random schedules with spurious wake-ups, larger configurations
    rng = random.Random(seed)
    cnt = 2500 if tier == "quick" else 60000
    for i in range(12 if tier == "quick" else 32):
        W = rng.choice([1, 2, 3])
        N = rng.choice([3, 4, 5])
        ops = []
        s = d = 0
        while s < N or d < s:
            c = rng.choice("SSDG")
            if c == "S" and s < N:
                ops.append("S"); s += 1
            elif c == "D" and d < s + 1:
                ops.append("D"); d += 1
            elif c == "G":
                ops.append("G")
            if len(ops) > 3 * N:
                break
        fm = rng.choice([0, 0, 1 << rng.randrange(N), (1 << rng.randrange(N)) | (1 << rng.randrange(N))])
        J.append((binp, "rand", W, N, fm, "".join(ops), seed * 100 + i, cnt, lim))
    # the block processor on top of the same controlled pool: every call returns under every schedule, the output reads back
    # (fail mask 0), and a compressor that fails in a worker on the first / last block (or the tail end, i.e. the fragment
    # block) of any one file makes some call of the submitter fail.  N is the backlog here.
    bcap = 700 if tier == "quick" else 40000
    for spec in BP_SPECS if tier == "quick" else BP_SPECS + BP_SPECS_MORE:
        nfiles = spec.count(",") + 1
        masks = [0] + [1 << k for k in range(nfiles)] + [1 << (8 + k) for k in range(nfiles)]
        for W in (1, 2, 3):
            for fm in masks:
                N = [1, 2, 3, 5, 8][len(J) % 5]        # (backlog below 3 is raised to 3 by the block processor: the boundary itself)
                J.append((binp, "dfs", W, N, fm, "B:" + spec, (1 if W > 1 else 2), bcap, lim))
                if tier != "quick":
                    J.append((binp, "rand", W, N, fm, "B:" + spec, seed * 1000 + len(J), 4000, lim))
    return J


# ("100a,5000B": a pending fragment, then a file of one block plus tail - with the smallest backlog the sentinel block of the second
# file is requested while fragment block and current block already fill the backlog)
BP_SPECS = ["9000A", "100a,200b", "4096A,4096B,100c", "8192A,300b,4096C", "100a,5000B"]
BP_SPECS_MORE = ["12288A", "5000A,5000A,700b", "4096z,4200A,50c,50c", "300a,300b,300c,300d,300e,300f,300g,300h,300i,300j,300k,300l,300m,300n,8300A"]


def main(tier, seed, scale=1.0):
    binp = harness()
    res = Result(PROP)
    J = jobs(tier, seed, binp)
    outs = vcommon.pmap(run_job, J, 16)
    complete_cfgs = []
    nt = 0
    for o in outs:
        s = o["summ"] or {}
        res.evaluations += s.get("executions", 0)
        nt += s.get("nontrivial", 0)
        key = "%s%s_W%d_N%d" % ("blockproc_" + ("failing_" if o["fm"] else "") if o["prog"].startswith("B:") else "", "complete" if (o["mode"] == "dfs" and o["a"] == -1) else ("bounded%d" % o["a"] if o["mode"] == "dfs" else "random"), o["W"], o["N"])
        res.add_class(key, s.get("executions", 0))
        if o["mode"] == "dfs" and s.get("complete"):
            complete_cfgs.append("W=%d N=%d fail=0x%x prog=%s %s: %d schedules" % (o["W"], o["N"], o["fm"], o["prog"],
                                                                                  "all" if o["a"] == -1 else "preemption bound %d" % o["a"], s.get("executions", 0)))
        if o["rc"] == -99:
            res.add_class("budget_stops")
        if o["fail"]:
            case = dict(W=o["W"], N=o["N"], failmask=o["fm"], prog=o["prog"], mode=o["mode"], a=o["a"], fail=o["fail"][:3000])
            try:
                fj = json.loads(o["fail"])
                case["choices"] = [t[0] for t in fj.get("trace", [])]
                what = "%s: %s" % (fj.get("result"), fj.get("msg"))
            except Exception:
                what = o["fail"][:200]
            p = vcommon.save_replay(PROP, case, what)
            res.violations.append(("worker pool W=%d N=%d fail=0x%x prog=%s: %s" % (o["W"], o["N"], o["fm"], o["prog"], what), p))
        elif o["rc"] not in (0, -99):
            res.violations.append(("vsched harness exit %s for W=%d N=%d prog=%s" % (o["rc"], o["W"], o["N"], o["prog"]), vcommon.save_replay(PROP, dict(job=list(o.items())[:8]), "harness")))
    # regression cases: saved choice sequences
    cdir = os.path.join(vcommon.VERIF, "corpus", PROP)
    if os.path.isdir(cdir):
        for f in sorted(os.listdir(cdir)):
            if f.endswith(".json"):
                r = replay(os.path.join(cdir, f))
                res.evaluations += 1
                res.add_class("corpus_replayed")
                for v in r.violations:
                    res.violations.append((v[0] + " (regression case)", v[1]))
    run_model(tier, seed, res, scale)
    res.nt_count = nt + getattr(res, "nt_count_model", 0)
    res.exhaustive = True
    res.extra["complete_enumerations"] = complete_cfgs[:60]
    res.extra["n_complete_enumerations"] = len(complete_cfgs)
    res.rule = ("stateless DFS over choice sequences of the controlled scheduler (scheduling points: before every mutex lock, at cond_wait, at "
                "worker callback entry and exit, thread exit; one spurious wake-up per execution) - complete for 1 worker with <=2 items (thorough: "
                "<=3 and 2 workers/2 items when it finishes), preemption-bounded for 2-3 workers and 2-3 items, random schedules for 1-3 workers "
                "and 3-5 items, every position of one failing item (and some pairs); non-trivial = execution with >=1 preemption of a runnable "
                "thread that holds no lock; DFS executions are distinct by construction; oracle = history invariants checked in the execution + "
                "deadlock detection by the scheduler.  Block processor on the same pool (files fed through begin/append/end/finish with 1-3 workers, "
                "backlog 2-8): every call returns, every file reads back, and with a compressor that fails in a worker on the first or last block "
                "/ tail of one file (every file, both positions) some call of the submitter must fail and destroy must join all workers.  "
                "Model-based sequences (src/c09_model.c, ASan): random programs of submit / dequeue / get_status over 1-20 items, with and "
                "without failing items, run on the serial reference pool and on the pthread pool (1-4 workers, native scheduling) and "
                "compared call by call with a FIFO model (order, exactly-once, NULL only when empty or failed, status and refused submits "
                "after a failure); non-trivial there = a dequeue that leaves the queue non-empty followed by another submit; failures "
                "are shrunk by deleting operations")
    res.samples = ["block processor W=2 backlog=3 files 4096A,4096B,100c, compressor fails on the tail of file 2 (fragment block = last item)", "W=1 N=2 fail=item0 prog=SSDD: all schedules", "W=2 N=3 prog=SSDSDD: preemption bound 2", "W=3 N=5 random program 'SSGDSDSDD' with a failing item"]
    res.assumptions = ["interleavings at the granularity of the pool's mutex/condvar operations under a sequentially consistent scheduler",
                       "threadpool.c is compiled unmodified with -include of a macro header that renames the pthread calls"]
    res.extra["min_evaluations"] = 2000
    return res


def replay(path):
    binp = harness()
    d = vcommon.load_replay(path)
    c = d["case"]
    res = Result(PROP)
    if c.get("model"):
        m = model_one(model_harness(), (c["impl"], c["failmask"], c["prog"]))
        if m:
            res.violations.append((m[:300], path))
        return res
    if "choices" not in c:
        return res
    cmd = [binp, "run", str(c["W"]), str(c["N"]), str(c["failmask"]), c["prog"], "-1"] + [str(x) for x in c["choices"]]
    p = subprocess.run(cmd, stdout=subprocess.PIPE, stderr=subprocess.PIPE, timeout=60)
    if b'"result": "ok"' not in p.stdout:
        res.violations.append((p.stdout.decode(errors="replace")[:300], path))
    return res
