"""C13 - fail-stop: an I/O or allocation failure is reported, never yields a bad image.

For generated small scenarios (gensquashfs dir / pack file, tar2sqfs, sqfs2tar, rdsquashfs -c / -u) a counting run
finds the number of write-like, read-like, open, truncate, sync and seek calls and of project allocations; then
every single fault position is executed: the k-th call of a class fails with ENOSPC / EIO (also preceded by one
EINTR), the k-th allocation made by project code returns NULL.  Oracle: no signal, no sanitizer report, no hang;
exit != 0 => diagnostic on stderr and (packers) no output file; exit 0 => output identical to the fault-free run.
"""
import os, re, errno
from hypothesis import strategies as st
import vcommon, vbuild, scenarios, treemodel
from vcommon import Violation, Inconclusive, CaseInfo, Result, Scratch

PROP = "C13"
KINDS = ["gen_dir", "gen_file", "t2s", "s2t", "rd_cat", "rd_unpack"] + scenarios.STDIO_KINDS
FAULTS = [("write", errno.ENOSPC), ("write", errno.EIO), ("read", errno.EIO), ("open", errno.EIO), ("open", errno.ENOMEM),
          ("trunc", errno.ENOSPC), ("sync", errno.EIO), ("seek", errno.EIO)]


@st.composite
def cases(draw, tier="quick"):
    c = draw(scenarios.scen_cases(kinds=KINDS))
    c["opts"]["j"] = 1
    if c["kind"] == "t2s" and draw(st.booleans()):
        # plain archive with GNU long name / long link records and a PAX header: the members the truncation layer cuts into
        c["codec"] = None
        ar = c["archive"]
        if not any(e["type"] == "file" and e["name"] == b"zz-long" for e in ar["entries"]):
            base = dict(mode=0o644, uid=0, gid=0, mtime=3, xattrs={})
            ar["entries"] += [dict(base, name=b"zz-long/" + b"n" * draw(st.integers(101, 180)), type="file", data=b"payload " * draw(st.integers(0, 90)),
                                   enc=dict(fmt="gnu", longname="gnu", num="octal", ostyle=0)),
                              dict(base, name=b"zz-lnk" + b"k" * 110, type="slink", mode=0o777, linkname=b"t" * draw(st.integers(101, 160)),
                                   enc=dict(fmt="gnu", longname="gnu", num="octal", ostyle=0)),
                              dict(base, name=b"zz-pax" + b"p" * 120, type="file", data=b"x" * draw(st.integers(1, 700)), xattrs={b"user.k": b"v"},
                                   enc=dict(fmt="ustar", longname="pax", num="octal", ostyle=0))]
    return c


def _summary(log):
    try:
        txt = open(log).read()
    except OSError:
        return {}, ""
    m = re.findall(r"SUMMARY (.*)", txt)
    d = {k: int(v) for k, v in (kv.split("=") for kv in m[-1].split())} if m else {}
    return d, txt


def _members(b):
    """[(start, [(record offset, payload end, record end)...], header offset, end of data)] of a plain tar stream; None if it cannot be
    split with certainty (old GNU sparse members have extension blocks the size field does not cover)"""
    out = []
    pos = 0
    recs = []
    start = None
    pax_size = None
    while pos + 512 <= len(b):
        h = b[pos:pos + 512]
        if not any(h):
            break
        tf = h[156:157]
        if tf == b"S":
            return None
        if h[124] & 0x80:
            size = int.from_bytes(h[125:136], "big")
        else:
            try:
                size = int(h[124:136].rstrip(b" \0") or b"0", 8)
            except ValueError:
                return None
        if pax_size is not None and tf not in (b"L", b"K", b"x", b"g"):
            size, pax_size = pax_size, None
        if start is None:
            start = pos
        ln = 512 + (size + 511) // 512 * 512
        if tf == b"x":
            m = re.search(rb"(?:^|\n)\d+ size=(\d+)\n", b[pos + 512:pos + 512 + size])
            if m:
                pax_size = int(m.group(1))     # overrides the size field of the following header
        if tf in (b"L", b"K", b"x"):
            recs.append((pos, pos + 512 + size, pos + ln))
        elif tf == b"g":
            # a global header is ignored by the reader and nothing has to follow it, but an archive that ends inside its header or
            # payload is still a truncated archive: a member of its own whose data is the payload
            if not recs:
                out.append((pos, [], pos, pos + 512 + size))
                start = None
        else:
            if tf in (b"1", b"2", b"3", b"4", b"5", b"6"):
                size = 0
                ln = 512
            out.append((start, recs, pos, pos + 512 + size))
            recs = []
            start = None
        pos += ln
    return out


def check_case(case, opts):
    shim = opts["shim"]
    kind = case["kind"]
    classes = ["kind_" + kind]
    with Scratch("c13") as sc:
        pre = os.path.join(sc, "prep")
        os.mkdir(pre)
        ctx = scenarios.prepare(case, pre, "asan")
        n = [0]

        def go(env=None, variant="asan"):
            n[0] += 1
            d = os.path.join(sc, "r%d" % n[0])
            os.mkdir(d)
            log = os.path.join(d, "io.log")
            kw = {}
            if env is not None:
                e = dict(env)
                # keep the sanitizer runtime from piping to a symbolizer child: that I/O would be fault-injected too
                e["ASAN_OPTIONS"] = vbuild.ASAN_ENV["ASAN_OPTIONS"] + ":symbolize=0"
                e["UBSAN_OPTIONS"] = vbuild.ASAN_ENV["UBSAN_OPTIONS"] + ":symbolize=0"
                if "VERIF_IO_MODE" in e:
                    e["VERIF_IO_LOG"] = log
                    kw["preload"] = shim
                if "VERIF_ALLOC_FAIL_K" in e or "VERIF_ALLOC_COUNT" in e:
                    e["VERIF_ALLOC_LOG"] = log
                kw["env"] = e
            o = scenarios.run(ctx, d, variant=variant, timeout=40, **kw)
            s, txt = _summary(log)
            if "ALLOCS" in txt:
                m = re.findall(r"ALLOCS (\d+) delivered=(\d+)", txt)
                s["allocs"], s["alloc_delivered"] = int(m[-1][0]), int(m[-1][1])
            vcommon.shutil.rmtree(d, ignore_errors=True)
            return o, s, txt
        ref, cnt, _ = go(env=dict(VERIF_IO_MODE="count"))
        if ref.timeout or ref.san or ref.rc != 0:
            raise Inconclusive("reference run did not succeed (other property): rc=%s %s" % (ref.rc, ref.san))
        packer = kind in scenarios.PACKERS
        delivered = 0

        def judge(o, what, was_delivered):
            if opts.get("survey") is not None:
                try:
                    judge2(o, what, was_delivered)
                except Violation as v:
                    loc = re.findall(r"(/repo/[^ :]+:\d+)", v.detail or "")
                    opts["survey"].append((v.sig, kind, re.sub(r"\d+", "N", what), loc[0] if loc else ""))
                return
            judge2(o, what, was_delivered)

        def judge2(o, what, was_delivered):
            if o.timeout:
                raise Violation("%s hangs after %s" % (kind, what), None, sig="hang")
            if o.san:
                raise Violation("%s crashes after %s: %s" % (kind, what, o.san), vcommon.symbolize(o.err).decode(errors="replace")[-3500:], sig="crash")
            if o.rc not in (0, 1) and not (kind == "diff" and o.rc == 2):
                raise Violation("%s exits with status %s after %s" % (kind, o.rc, what), o.err.decode(errors="replace")[-500:], sig="odd-status")
            if o.rc == 0:
                if o.digest != ref.digest:
                    raise Violation("%s exits with status 0 after %s but its output differs from the fault-free run" % (kind, what), None, sig="silent-bad-output")
            else:
                if not o.err.strip():
                    raise Violation("%s fails after %s without any diagnostic" % (kind, what), None, sig="no-diagnostic")
                if packer and o.exists:
                    raise Violation("%s fails after %s but leaves its partial output file behind" % (kind, what), None, sig="output-left")
        # ---- system call faults
        limit = opts.get("k_limit", 60)
        for cls, err in FAULTS:
            total = cnt.get(cls, 0)
            ks = list(range(1, total + 1))
            if len(ks) > limit:
                step = len(ks) / float(limit)
                ks = sorted(set(ks[int(i * step)] for i in range(limit)) | {1, total})
            for k in ks:
                for eintr in ((0, 1) if (cls in ("write", "read") and err == errno.EIO) else (0,)):
                    env = dict(VERIF_IO_MODE="fail", VERIF_IO_FAIL_CLASS=cls, VERIF_IO_FAIL_K=str(k), VERIF_IO_FAIL_ERRNO=str(err))
                    if eintr:
                        env["VERIF_IO_FAIL_EINTR_FIRST"] = "1"
                    o, s, txt = go(env=env)
                    d_ = s.get("fail", 0) > 0 or "FAIL class" in txt
                    judge(o, "%s%s on %s call %d of %d" % ("EINTR then " if eintr else "", errno.errorcode[err], cls, k, total), d_)
                    delivered += 1 if d_ else 0
            if total:
                classes.append("cls_" + cls)
        # ---- standard output cannot take anything (ENOSPC on every write, whoever issues it - also stdio)
        if kind in ("s2t", "rd_cat") + tuple(scenarios.STDIO_KINDS):
            n[0] += 1
            d = os.path.join(sc, "r%d" % n[0])
            os.mkdir(d)
            o = scenarios.run(ctx, d, variant="asan", timeout=40, stdout_path="/dev/full")
            vcommon.shutil.rmtree(d, ignore_errors=True)
            if ref.stdout_len:
                what = "standard output on a full device"
                if o.timeout:
                    raise Violation("%s hangs with %s" % (kind, what), None, sig="hang")
                if o.san:
                    raise Violation("%s crashes with %s: %s" % (kind, what, o.san), o.err.decode(errors="replace")[-2000:], sig="crash")
                if o.rc == 0:
                    raise Violation("%s exits with status 0 although nothing it printed could be written (%s)" % (kind, what), None, sig="stdout-full-ignored")
                if not o.err.strip():
                    raise Violation("%s fails with %s without any diagnostic" % (kind, what), None, sig="no-diagnostic")
                delivered += 1
                classes.append("stdout_full")
        # ---- truncated input: the archive ends inside a member (inside an extension record or its padding, inside the
        # header, or before the last byte of the member's data).  Cuts at member boundaries and in the zero padding behind a
        # member's data lose nothing and are not judged.
        if kind == "t2s" and not case.get("codec"):
            data = ctx["stdin"]
            members = _members(data)
            cuts = []
            for (ms, recs, hdr, dend) in members or []:
                for (ro, rpayload_end, rend) in recs:
                    cuts += [ro + 100, ro + 512 + max(0, (rpayload_end - ro - 512) // 2), rpayload_end, min(rend - 1, rpayload_end + 7), rend - 1, rend]
                cuts += [hdr + 1, hdr + 300, hdr + 511]
                if dend > hdr + 512:
                    cuts += [hdr + 512, hdr + 512 + (dend - hdr - 512) // 2, dend - 1]
            cuts = sorted(set(c for c in cuts if any(ms < c < dend for ms, _, _, dend in members or [])))
            if len(cuts) > 60:
                step = len(cuts) / 60.0
                cuts = sorted(set(cuts[int(i * step)] for i in range(60)))
            # a member that tar2sqfs skips (--exclude-dir, --root-becomes with another prefix) still has to be there completely
            in_data = lambda c: any(hdr + 512 <= c < dend for _, _, hdr, dend in members or [])
            runs = [(c, []) for c in cuts] + [(c, x) for i, c in enumerate(cuts) if in_data(c) for x in ([["-E", "*"]] if i % 2 else [["-r", "no-such-prefix-zz"]])]
            for c, extra in runs:
                ctx2 = dict(ctx, stdin=data[:c], t2s_extra=extra)
                n[0] += 1
                d = os.path.join(sc, "r%d" % n[0])
                os.mkdir(d)
                o = scenarios.run(ctx2, d, variant="asan", timeout=40)
                vcommon.shutil.rmtree(d, ignore_errors=True)
                what = "input that ends inside a member (%d of %d bytes)%s" % (c, len(data), (" which is skipped because of " + " ".join(extra)) if extra else "")
                if extra:
                    classes.append("truncated_inside_skipped_member")
                if o.timeout:
                    raise Violation("t2s hangs on %s" % what, None, sig="hang")
                if o.san:
                    raise Violation("t2s crashes on %s: %s" % (what, o.san), o.err.decode(errors="replace")[-2000:], sig="crash")
                if o.rc == 0:
                    raise Violation("t2s exits with status 0 on %s" % what, None, sig="truncated-accepted")
                if not o.err.strip():
                    raise Violation("t2s fails on %s without any diagnostic" % what, None, sig="no-diagnostic")
                if o.exists:
                    raise Violation("t2s fails on %s but leaves its partial output file behind" % what, None, sig="output-left")
                delivered += 1
            if cuts:
                classes.append("truncated_input")
        # ---- allocation faults (project allocations only; -j 1 keeps the numbering deterministic)
        o1, s1, _ = go(env=dict(VERIF_ALLOC_COUNT="1"), variant="allocfault")
        o2, s2, _ = go(env=dict(VERIF_ALLOC_COUNT="1"), variant="allocfault")
        na = s1.get("allocs", 0)
        if na and s2.get("allocs") == na and o1.rc == 0:
            ks = list(range(1, na + 1))
            alimit = opts.get("alloc_limit", 150)
            if len(ks) > alimit:
                # evenly spread, plus all of the first and the last 40: table growth and the finishing steps cluster at both ends
                step = len(ks) / float(alimit)
                ks = sorted(set(ks[int(i * step)] for i in range(alimit)) | set(range(1, min(na, 40) + 1)) | set(range(max(1, na - 40), na + 1)))
            else:
                classes.append("alloc_exhaustive")
            for k in ks:
                o, s, _ = go(env=dict(VERIF_ALLOC_FAIL_K=str(k)), variant="allocfault")
                judge(o, "allocation %d of %d returning NULL" % (k, na), s.get("alloc_delivered", 0))
                delivered += s.get("alloc_delivered", 0)
            classes.append("alloc")
        elif na:
            classes.append("alloc_numbering_unstable")
        return CaseInfo(delivered >= 2, classes)


def strat(tier, opts):
    return cases(tier)


def directed_cases():
    """scenarios whose interesting fault position needs a specific input shape; run on every invocation"""
    B = 4096
    base = lambda **kw: dict(dict(comp="gzip", X=None, B=B, T=False, e=False, j=1, Q=None, devblk=None, defaults={}, source_date_epoch=None, xattr_styles=[0],
                                  quote_all=False, loc_style=0, packdir_mode=1), **kw)
    out = []
    # sqfs2tar -c X on a megabyte that does not compress: one flush of the compressing stream needs several writes (bzip2 hands over a
    # whole 900k block at once), a failure of one that is not the last must not be forgotten
    ent = dict(name=b"zz-random", type="file", mode=0o644, uid=0, gid=0, mtime=0, xattrs={}, data=treemodel.content_bytes(("rand", 5, 0, 1100000), B),
               enc=dict(fmt="ustar", num="octal", ostyle=0, xattrfmt="schily"))
    for codec in ("bzip2", "gzip", "zstd"):
        out.append(dict(kind="s2t", opts=base(), relout=False, profile="big_random", codec=None, s2t_codec=codec,
                        archive=dict(entries=[ent], end_marker=True, global_pax=False, trailing_pad=0)))
    # xattr table: many sets made of references to one shared value; with different numbers of sets the 8 KiB boundary of the
    # key/value area falls into a key, a value or the 12 bytes of a reference
    shared = b"a value that several sets share and that is therefore stored once"
    for nsets in (600, 607, 619, 655):
        nodes = [dict(path=b"d%03d" % i, type="dir", mode=0o755, uid=0, gid=0, mtime=0, xattrs={}) for i in range(nsets)]
        xf = [(n["path"], {b"user.k%d" % j: shared for j in range(10) if (i + 1) >> j & 1 or j == i % 10}) for i, n in enumerate(nodes)]
        out.append(dict(kind="gen_file", mode="file", opts=base(), relout=False, profile="xattr_refs", nodes=nodes, xattr_file=xf, sort=False))
    return out


def _directed_job(args):
    case, opts = args
    try:
        ci = check_case(case, opts)
        return ("ok", ci.classes, ci.nontrivial)
    except Violation as v:
        return ("bad", str(v), v.sig)
    except Inconclusive as e:
        return ("inc", str(e), None)


def main(tier, seed, scale=1.0):
    vbuild.build("asan")
    vbuild.build("allocfault")
    vbuild.build("plain")
    shim = vbuild.build_shim("io_shim")
    n = int((400 if tier == "quick" else 6000) * scale)
    res = Result(PROP, level="fault_enumeration")
    opts = {"prop": PROP, "shim": shim, "k_limit": 40 if tier == "quick" else 400, "alloc_limit": 120 if tier == "quick" else 2000,
            "shrink_budget": 60}
    vcommon.run_corpus(PROP, check_case, opts, res)
    import multiprocessing as mp
    dc = directed_cases() if scale >= 0.2 else []
    dp = mp.get_context("fork").Pool(4)
    dres = dp.map_async(_directed_job, [(c, dict(opts, k_limit=400)) for c in dc], chunksize=1)
    for d in vcommon.run_shards("c13", "check_case", "strat", n, seed, tier, opts, shards=12):
        res.merge_shard(d)
    for c, r in zip(dc, dres.get()):
        res.evaluations += 1
        res.add_class("directed_" + c["profile"])
        if r[0] == "ok":
            if r[2]:
                res.nontrivial.add(vcommon.case_hash(c))
            for k in r[1]:
                res.add_class(k)
        elif r[0] == "bad":
            res.violations.append((r[1], vcommon.save_replay(PROP, c, r[1])))
        else:
            res.add_class("directed_inconclusive")
    dp.close()
    res.exhaustive = True
    res.extra["exhaustive_subspace"] = ("per generated input: every single fault position k of each system call class (when <= the limit) and "
                                        "every project allocation (classes alloc_exhaustive / cls_*)")
    res.rule = ("Hypothesis small scenarios x every single fault position: k-th write/pwrite (ENOSPC, EIO, EINTR-then-EIO), read/pread (EIO, "
                "EINTR-then-EIO), open/openat (EIO, ENOMEM), ftruncate (ENOSPC), fsync (EIO), lseek (EIO), and k-th project allocation "
                "returning NULL (asan + --wrap build, -j 1); non-trivial = >=2 faults actually delivered (shim / wrapper log); oracle = no "
                "signal/sanitizer/hang, exit != 0 => diagnostic and no output file left by packers, exit 0 => output equals the fault-free run")
    res.assumptions = ["faults injected at libc wrappers via LD_PRELOAD and at malloc/calloc/realloc/strdup/strndup call sites of project objects via --wrap",
                       "premature EOF is not injected: a shorter input file or archive is a legitimate input (truncation is C07/C15)"]
    res.extra["min_evaluations"] = n // 3
    return res


def replay(path):
    vbuild.build("asan")
    vbuild.build("allocfault")
    vbuild.build("plain")
    shim = vbuild.build_shim("io_shim")
    return vcommon.replay_case(PROP, check_case, path, {"shim": shim, "k_limit": 400, "alloc_limit": 2000})
