"""C03 - every produced image satisfies the on-disk invariants.

Images are produced by gensquashfs from the C01 generator (weighted towards directory,
metadata-block and compressor boundaries) and by tar2sqfs from the C04 archive generator;
each image is parsed by the independent reader and the named invariants of
lib/sqfsimg.validate() (DESIGN C03: S1-S4, M1, T1, D1, I1-I5, R1-R4, X1, E1) are evaluated.
"""
import os
from hypothesis import strategies as st
import vcommon, vbuild, treemodel, packlib, sqfsimg
from vcommon import Violation, Inconclusive, CaseInfo, Result, Scratch
import c01

PROP = "C03"


@st.composite
def cases(draw, tier="quick"):
    sel = draw(st.sampled_from([0, 1, 2, 3, 4, 5, 6, 7, 8, 9, 10]))
    if sel == 10:
        # directories around the 256-entries-per-header limit, with inodes small enough that only that limit ends a run
        nodes = draw(c01.profile_bigdir())
        o = draw(packlib.pack_opts(mode="file"))
        o["B"] = 4096
        o.setdefault("quote_all", False)
        return {"mode": "file", "opts": o, "profile": "bigdir", "nodes": nodes}
    if sel < 6:
        case = draw(c01.cases(tier))
        if case.get("profile") == "unrep":
            case = draw(c01.cases(tier).filter(lambda c: c.get("profile") != "unrep"))
        return case
    # compressor boundary: short / incompressible data and metadata with every compressor, small blocks
    mode = "file"
    o = draw(packlib.pack_opts(mode=mode, small_blocks=True))
    if o["comp"] == "xz" and draw(st.booleans()):
        # xz dictionary sizes: 2^n and 2^n + 2^(n+1) are the legal ones (format.adoc, the kernel checks it); anything else has to be
        # refused rather than stored in the compressor options
        o["X"] = "dictsize=" + draw(st.sampled_from(["8192", "12288", "24576", "28672", "57344", "61440", "114688", "10000", "28K", "98304", "8193", "1M", "1536K", "1792K"]))
        o["X_may_be_refused"] = True
    n = draw(st.integers(1, 12))
    nodes = []
    for i in range(n):
        k = draw(st.sampled_from(["rand", "rand", "text", "lit"]))
        if k == "lit":
            content = ("lit", draw(st.binary(min_size=0, max_size=64)))
        else:
            content = (k, draw(st.integers(0, 50)), draw(st.sampled_from([0, 0, 1, 2])), draw(st.sampled_from([-1, 0, 1, 7, 100, 3000])))
        nodes.append(dict(path=b"f%02d" % i + draw(st.binary(min_size=0, max_size=6)).hex().encode(), type="file", mode=draw(treemodel.modes()),
                          uid=draw(st.integers(0, 3)), gid=0, mtime=0, xattrs={}, content=content))
    return {"mode": mode, "opts": o, "profile": None, "nodes": nodes}


def validate_image(data, devblk, what="image"):
    try:
        img = sqfsimg.Image(data)
        for i in img.inodes.values():
            if i.type == sqfsimg.T_FILE:
                img.file_bytes(i)
    except sqfsimg.FormatError as e:
        raise Violation("%s does not parse: %s" % (what, e), None, sig="unparsable")
    v = sqfsimg.validate(img, devblk)
    if v:
        ids = sorted(set(x.split(":")[0] for x in v))
        raise Violation("%s violates %s: %s" % (what, ",".join(ids), "; ".join(v[:3])), v, sig="inv-" + ids[0])
    return img


def check_case(case, opts):
    with Scratch("c03") as sc:
        try:
            r, out = packlib.run_pack(case, sc)
        except OSError as e:
            raise Inconclusive(str(e))
        if r.sanitizer():
            raise Violation("gensquashfs: " + r.sanitizer(), r.err.decode(errors="replace")[-2000:], sig="sanitizer")
        if r.rc != 0 and not r.timeout and case["opts"].get("X_may_be_refused"):
            return CaseInfo(False, ["refused_option_value"])
        if r.rc != 0 or r.timeout:
            try:
                packlib.expected_for_case(case)
            except treemodel.Unrepresentable:
                return CaseInfo(False, ["refused"])
            raise Inconclusive("packer refused: %s" % r.err[-200:])
        data = open(out, "rb").read()
        img = validate_image(data, packlib.devblk_bytes(case["opts"]))
        cl = packlib.image_classes(img, case)
        nontrivial = ("ext_dir" in cl or "inode_table_multi_block" in cl or "dir_table_multi_block" in cl or "has_fragment" in cl)
        return CaseInfo(nontrivial, cl)


def strat(tier, opts):
    return cases(tier)


def tar_strat(tier, opts):
    import c04
    return c04.cases(tier).filter(lambda c: not c.get("gen"))


def check_tar_case(case, opts):
    """images written by tar2sqfs for C04-style archives"""
    import c04, tarimg
    if case.get("gen"):
        # (C04 also generates images that do not come from tar; those are gensquashfs images, which the other branch covers)
        raise Inconclusive("not an archive case")
    ar, o = case["archive"], case["opts"]
    try:
        data = tarimg.encode_archive(ar["entries"], ar["end_marker"], ar["global_pax"], ar["trailing_pad"])
        tarimg.expected_from_archive(ar["entries"], o)
    except (OverflowError, treemodel.Unrepresentable):
        raise Inconclusive("archive")
    with Scratch("c03t") as sc:
        out = os.path.join(sc, "t.sqfs")
        r = c04.run_t2s(data, o, out)
        if r.sanitizer():
            raise Violation("tar2sqfs: " + r.sanitizer(), r.err.decode(errors="replace")[-2000:], sig="sanitizer")
        if r.rc != 0 or r.timeout:
            raise Inconclusive("tar2sqfs refused (C04's business)")
        img = validate_image(open(out, "rb").read(), 4096, "tar2sqfs image")
        cl = packlib.image_classes(img, dict(mode="tar"))
        return CaseInfo("has_fragment" in cl or "ext_dir" in cl or "inode_table_multi_block" in cl, ["tar2sqfs"] + cl)


def main(tier, seed, scale=1.0):
    vbuild.build("asan")
    n = int((2000 if tier == "quick" else 20000) * scale)
    res = Result(PROP)
    vcommon.run_corpus(PROP, check_case, {"prop": PROP}, res)
    for d in vcommon.run_shards("c03", "check_case", "strat", n, seed, tier, {"prop": PROP}):
        res.merge_shard(d)
    nt = int((1500 if tier == "quick" else 20000) * scale)
    for d in vcommon.run_shards("c03", "check_tar_case", "tar_strat", nt, seed + 1, tier, {"prop": PROP}):
        res.merge_shard(d)
    res.rule = ("images written by gensquashfs for C01-style cases (incl. 256/512-entry directories, metadata block crossings, k*512 xattr "
                "sets) and for short/incompressible inputs with every compressor, and by tar2sqfs for C04 archives; non-trivial = image "
                "has an extended directory, a multi-block inode/dir table or a fragment block; distinct by case hash; oracle = named "
                "invariants S1-S4 M1 T1 D1 I1-I5 R1-R4 X1 E1 evaluated by the independent parser")
    res.assumptions = ["invariants as listed in DESIGN.md C03, derived from doc/format.adoc and the kernel's table checks"]
    res.extra["min_evaluations"] = n // 3
    return res


def replay(path):
    vbuild.build("asan")
    return vcommon.replay_case(PROP, check_case, path)
