/* weakhash - replaces the 32 bit block checksum by its low VERIF_HASH_BITS bits (default 4), so that many distinct
 * blocks and fragments of equal size collide.  xxhash.c is compiled with -Dxxh32=xxh32_full in this variant. */
#include <stdlib.h>
#include "sqfs/predef.h"

sqfs_u32 xxh32_full(const void *input, const size_t len);

sqfs_u32 xxh32(const void *input, const size_t len)
{
	static int bits = -1;
	if (bits < 0) {
		const char *e = getenv("VERIF_HASH_BITS");
		bits = e ? atoi(e) : 4;
		if (bits < 0 || bits > 32)
			bits = 4;
	}
	if (bits == 32)
		return xxh32_full(input, len);
	return xxh32_full(input, len) & ((1u << bits) - 1u);
}
