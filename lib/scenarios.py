"""scenarios - tool invocations with a digest of what they produce; shared by C12/C13/C14 (and C02).

A scenario case = dict(kind, ...inputs...).  prepare(case, dir) materialises the inputs once and returns a context;
run(ctx, rundir, env=None, preload=None, feed_chunk=0, drain_chunk=0) executes the tool and returns an Outcome with
rc, digest (sha256 of the image / archive bytes / unpacked tree snapshot / stdout), out path, stderr.
"""
import os, hashlib, stat, subprocess, threading, signal, time, shutil
from hypothesis import strategies as st
import vcommon, vbuild, treemodel, packlib, tarimg, sqfsimg

KINDS = ["gen_dir", "gen_file", "t2s", "s2t", "rd_cat", "rd_unpack", "diff"]
# rdsquashfs modes that print through stdio (offered to the checks that ask for them by name)
STDIO_KINDS = ["rd_list", "rd_describe", "rd_stat"]
PACKERS = ("gen_dir", "gen_file", "t2s")


class Outcome:
    __slots__ = ("rc", "digest", "out", "err", "timeout", "san", "exists", "stdout_len")


def small_tree(draw, mode):
    return draw(treemodel.trees(mode=mode, max_nodes=8, min_nodes=2, want_special=True, name_max=40, file_bias=True,
                                allow_newline=False, id_pool=[0, 1000, 70000]))


@st.composite
def scen_cases(draw, kinds=KINDS, comps=("gzip", "zstd", "lz4", "xz", "default"), damage=False):
    kind = draw(st.sampled_from(list(kinds)))
    B = 4096
    o = dict(comp=draw(st.sampled_from(list(comps))), X=None, B=B, T=draw(st.booleans()), e=draw(st.booleans()), j=draw(st.sampled_from([1, 1, 2])),
             Q=None, devblk=None, defaults={}, source_date_epoch=None, xattr_styles=[0], quote_all=False, loc_style=0, packdir_mode=1)
    case = dict(kind=kind, opts=o)
    # the output file is named relative to the working directory in half of the packer runs
    case["relout"] = draw(st.booleans())
    # directed input: a tail end, more than a fragment block of other tails, then the same tail again - the packer has to read
    # the finished fragment block back from its own output file to compare
    readback = kind in ("gen_dir", "gen_file", "t2s") and draw(st.sampled_from([False, False, False, False, True]))
    rb_files = []
    if readback:
        first = ("rand", draw(st.integers(0, 50)), 0, draw(st.integers(900, 2500)))
        rb_files = [(b"a0", first)] + [(b"b%d" % i, ("rand", 100 + i, 0, draw(st.integers(1400, 3000)))) for i in range(draw(st.integers(2, 4)))] + [(b"c9", first)]
        case["profile"] = "frag_readback"
        o["Q"] = draw(st.sampled_from([1, 3]))     # with the default backlog the first block would still be in flight
    # directed input: 512 * 2^k + 1 inodes with --exportable - the export table (capacity 512, doubling) grows exactly when the
    # root inode, the last one, is entered at the very end of the run
    exp_edge = kind == "gen_file" and not readback and draw(st.sampled_from([False] * 9 + [True]))
    if exp_edge:
        case["profile"] = "export_table_grows_at_root"
        o["e"] = True
    mk = lambda p, rec: dict(path=p, type="file", mode=0o644, uid=0, gid=0, mtime=0, xattrs={}, content=rec)
    if kind == "gen_dir":
        o.update(keep_time=draw(st.booleans()), keep_xattr=draw(st.booleans()), no_hard_links=False)
        case.update(mode="dir", nodes=[mk(p, r) for p, r in rb_files] if readback else small_tree(draw, "dir"))
    elif kind == "gen_file" and exp_edge:
        nn = 512 * draw(st.sampled_from([1, 1, 2, 2])) + draw(st.sampled_from([0, 0, -1, -1, 1]))
        # empty directories have 32 byte inodes (256 fill a metadata block exactly); with 1024 inodes the export table is one full block
        if draw(st.booleans()):
            case.update(mode="file", nodes=[dict(path=b"d%04d" % i, type="dir", mode=0o755, uid=0, gid=0, mtime=0, xattrs={}) for i in range(nn)])
        else:
            case.update(mode="file", nodes=[dict(path=b"p%04d" % i, type="fifo" if i % 2 else "sock", mode=0o644, uid=0, gid=0, mtime=0, xattrs={}) for i in range(nn)])
    elif kind == "gen_file":
        case.update(mode="file", nodes=[mk(p, r) for p, r in rb_files] if readback else small_tree(draw, "file"))
        ents = [(n["path"], n["xattrs"]) for n in case["nodes"] if n.get("xattrs") and n["type"] != "hlink" and b"\r" not in n["path"]
                and n["path"] == n["path"].strip() and not n["path"].startswith(b"#")]
        if ents:
            case["xattr_file"] = ents
        case["sort"] = draw(st.booleans())
    else:
        ar = draw(tarimg.archives(B=B, max_entries=6, simple_names=False))
        extra_prof = draw(st.sampled_from([None] * 10 + ["big_input", "xattr_heavy", "big_random"]))
        fent = lambda name, data, xattrs=None: dict(name=name, type="file", mode=0o644, uid=0, gid=0, mtime=0, xattrs=xattrs or {}, data=data,
                                                     enc=dict(fmt="ustar", num="octal", ostyle=0, xattrfmt="schily"))
        if extra_prof == "big_input" and not readback:
            # more input than one stream buffer (128 KiB) holds: reads come in several rounds
            ar["entries"].append(fent(b"zz-big-input", treemodel.content_bytes(("text", 3, 0, draw(st.sampled_from([140000, 400000]))), B)))
            case["profile"] = "big_input"
        elif extra_prof == "xattr_heavy" and not readback:
            # more than one 8 KiB block of xattr key/value data, with a long value shared by all (stored once, referenced)
            import random as _r
            rr = _r.Random(draw(st.integers(0, 99)))
            for i in range(draw(st.sampled_from([30, 45]))):
                ar["entries"].append(fent(b"zz-x%02d" % i, b"", {b"user.blob": bytes(rr.randrange(1, 255) for _ in range(rr.randrange(300, 500))),
                                                                   b"user.shared": b"the same long value on every file"}))
            case["profile"] = "xattr_heavy"
        elif extra_prof == "big_random" and kind == "s2t":
            # a megabyte that does not compress: a compressing output stream has to flush more than its buffer holds at once
            ar["entries"].append(fent(b"zz-random", treemodel.content_bytes(("rand", 5, 0, 1100000), B)))
            case["profile"] = "big_random"
        if readback:
            ar = dict(entries=[dict(name=p, type="file", mode=0o644, uid=0, gid=0, mtime=0, xattrs={}, data=treemodel.content_bytes(r, B),
                                    enc=dict(fmt="ustar", num="octal", ostyle=0)) for p, r in rb_files], end_marker=True, global_pax=False, trailing_pad=0)
        case["archive"] = ar
        case["codec"] = draw(st.sampled_from([None, None, "gzip", "xz", "zstd", "bzip2"]))
        if damage and kind in ("s2t", "rd_cat", "rd_unpack", "diff"):
            # the image the reader gets has lost its end: reads run into the end of the file and the tool has to fail the same way every time
            case["img_cut"] = draw(st.sampled_from([0, 0, 0, 0, 1, 100, 4096, 4097, "half"]))
        if kind == "s2t":
            case["s2t_codec"] = draw(st.sampled_from([None, None, "gzip", "xz", "zstd", "bzip2"]))
            if case.get("profile") == "big_random":
                case["s2t_codec"] = draw(st.sampled_from(["bzip2", "bzip2", "gzip", "xz", "zstd"]))
        if kind == "rd_unpack":
            case["flags"] = draw(st.lists(st.sampled_from(["-C", "-O", "-T", "-X", "-Z"]), unique=True, max_size=5))
        if kind == "diff":
            case["archive2"] = draw(st.one_of(st.just(None), tarimg.archives(B=B, max_entries=4)))
    return case


def _c(o):
    return ["-c", o["comp"]] if o["comp"] != "default" else []


def _archive_bytes(ar):
    return tarimg.encode_archive(ar["entries"], ar["end_marker"], ar["global_pax"], ar["trailing_pad"])


def prepare(case, d, variant="plain"):
    """materialise inputs under d; returns ctx dict.  Raises vcommon.Inconclusive if the inputs are not usable."""
    kind = case["kind"]
    ctx = dict(case=case, dir=d, variant=variant)
    o = case["opts"]
    if kind in ("gen_dir", "gen_file"):
        nodes, B = case["nodes"], o["B"]
        try:
            packlib.expected_for_case(dict(case, mode=case["mode"]))
        except treemodel.Unrepresentable:
            raise vcommon.Inconclusive("unrepresentable")
        args = packlib.cmdline(o, None)
        if case.get("xattr_file"):
            xf = os.path.join(d, "xattrs.txt")
            with open(xf, "wb") as fh:
                fh.write(treemodel.xattr_file_text(case["xattr_file"], [0, 1, 2]))
            args += ["-A", xf]
        if kind == "gen_dir":
            src = os.path.join(d, "src")
            os.mkdir(src)
            try:
                treemodel.materialise_dir(nodes, src, B)
            except OSError as e:
                raise vcommon.Inconclusive(str(e))
            args += ["--pack-dir", src]
        else:
            ind = os.path.join(d, "input")
            os.mkdir(ind)
            text = treemodel.packfile_lines(nodes, B, ind)
            lf = os.path.join(d, "list.txt")
            with open(lf, "wb") as fh:
                fh.write(text)
            args += ["-F", lf, "-D", ind]
            if case.get("sort_lines"):
                # explicit sort file: (priority, [flags], path)
                sf = os.path.join(d, "sort.txt")
                with open(sf, "wb") as fh:
                    for prio, flags, pth in case["sort_lines"]:
                        fh.write(b"%d %s\"%s\"\n" % (prio, (b"[" + ",".join(flags).encode() + b"] ") if flags else b"", pth))
                args += ["-S", sf]
            elif case.get("sort"):
                files = [n["path"] for n in nodes if n["type"] == "file" and b'"' not in n["path"] and b"\\" not in n["path"] and b"\r" not in n["path"]
                         and n["path"] == n["path"].strip()]
                sf = os.path.join(d, "sort.txt")
                with open(sf, "wb") as fh:
                    for i, p in enumerate(files):
                        if case.get("profile") == "frag_readback":
                            # the duplicate tail is kept although it is found again: the comparison reads the fragment block back
                            fh.write(b"%d [dont_deduplicate] \"%s\"\n" % (i, p))
                        else:
                            fh.write(b"%d [dont_fragment] \"%s\"\n" % (-i, p))
                args += ["-S", sf]
        ctx["args"] = args
        return ctx
    try:
        data = _archive_bytes(case["archive"])
        tarimg.expected_from_archive(case["archive"]["entries"], {})
    except (OverflowError, treemodel.Unrepresentable):
        raise vcommon.Inconclusive("archive")
    if kind == "t2s":
        if case.get("codec"):
            import c15
            data = c15.compress(case["codec"], data, 5)
        ctx["stdin"] = data
        return ctx
    # the remaining kinds need an image
    img = os.path.join(d, "in.sqfs")
    r = vcommon.run([vcommon.tool("plain", "tar2sqfs"), "-q"] + _c(o) + ["-b", str(o["B"]), img], stdin=data, timeout=60)
    if r.rc != 0:
        raise vcommon.Inconclusive("image build failed")
    ctx["img"] = img
    if kind == "rd_cat":
        im = sqfsimg.Image(open(img, "rb").read())
        files = sorted(p for p, i in im.paths.items() if i.type == sqfsimg.T_FILE)
        if not files:
            raise vcommon.Inconclusive("no file")
        ctx["cat"] = b"/" + max(files, key=lambda p: im.paths[p].size)
    if kind == "diff":
        img2 = os.path.join(d, "in2.sqfs")
        if case.get("archive2") is None:
            shutil.copy(img, img2)
        else:
            try:
                d2 = _archive_bytes(case["archive2"])
                tarimg.expected_from_archive(case["archive2"]["entries"], {})
            except (OverflowError, treemodel.Unrepresentable):
                raise vcommon.Inconclusive("archive2")
            r = vcommon.run([vcommon.tool("plain", "tar2sqfs"), "-q", "-c", "gzip", img2], stdin=d2, timeout=60)
            if r.rc != 0:
                raise vcommon.Inconclusive("image2 build failed")
        ctx["img2"] = img2
    cut = case.get("img_cut")
    if cut:
        size = os.path.getsize(img)
        keep = size // 2 if cut == "half" else max(96, size - cut)
        with open(img, "r+b") as fh:
            fh.truncate(keep)
    return ctx


def snapshot_tree(root, with_mtime=True):
    h = hashlib.sha256()
    rootb = os.fsencode(root)
    items = []
    for dp, dn, fn in os.walk(rootb):
        for name in dn + fn:
            p = os.path.join(dp, name)
            s = os.lstat(p)
            rec = [os.path.relpath(p, rootb), stat.S_IFMT(s.st_mode), stat.S_IMODE(s.st_mode) if not stat.S_ISLNK(s.st_mode) else 0, s.st_uid, s.st_gid]
            if stat.S_ISREG(s.st_mode):
                with open(p, "rb") as fh:
                    rec.append(hashlib.sha256(fh.read()).hexdigest())
                if with_mtime:
                    rec.append(int(s.st_mtime))
            elif stat.S_ISLNK(s.st_mode):
                rec.append(os.readlink(p))
            elif stat.S_ISCHR(s.st_mode) or stat.S_ISBLK(s.st_mode):
                rec.append(s.st_rdev)
            try:
                rec.append(sorted((k, os.getxattr(p, k, follow_symlinks=False)) for k in os.listxattr(p, follow_symlinks=False)))
            except OSError:
                pass
            items.append(rec)
    for rec in sorted(items, key=lambda r: r[0]):
        h.update(repr(rec).encode())
    return h.hexdigest(), len(items)


def run(ctx, rundir, env=None, preload=None, feed_chunk=0, drain_chunk=0, timeout=60, variant=None, stdout_path=None):
    """execute the scenario once in rundir (fresh directory)"""
    case = ctx["case"]
    kind = case["kind"]
    v = variant or ctx["variant"]
    o = case["opts"]
    out = None
    stdin = None
    want_stdout = False
    cwd = rundir
    if kind in ("gen_dir", "gen_file"):
        out = os.path.join(rundir, "out.sqfs")
        cmd = [vcommon.tool(v, "gensquashfs")] + ctx["args"] + ["out.sqfs" if case.get("relout") else out]
    elif kind == "t2s":
        out = os.path.join(rundir, "out.sqfs")
        cmd = [vcommon.tool(v, "tar2sqfs"), "-q"] + _c(o) + ["-b", str(o["B"]), "-j", str(o["j"])] + (["-Q", str(o["Q"])] if o.get("Q") else []) + (["-T"] if o["T"] else []) + (["-e"] if o["e"] else []) + (["-f"] if ctx.get("force") else []) + ctx.get("t2s_extra", []) + ["out.sqfs" if case.get("relout") else out]
        stdin = ctx["stdin"]
    elif kind == "s2t":
        cmd = [vcommon.tool(v, "sqfs2tar")] + (["-c", case["s2t_codec"]] if case.get("s2t_codec") else []) + [ctx["img"]]
        want_stdout = True
    elif kind == "rd_cat":
        cmd = [vcommon.tool(v, "rdsquashfs"), "-c", ctx["cat"], ctx["img"]]
        want_stdout = True
    elif kind in STDIO_KINDS:
        cmd = [vcommon.tool(v, "rdsquashfs")] + {"rd_list": ["-l", "/"], "rd_describe": ["-d"], "rd_stat": ["-s", "/"]}[kind] + [ctx["img"]]
        want_stdout = True
    elif kind == "rd_unpack":
        out = os.path.join(rundir, "unp")
        os.mkdir(out)
        cmd = [vcommon.tool(v, "rdsquashfs"), "-u", "/", "-p", out, "-q"] + case.get("flags", []) + [ctx["img"]]
    else:
        cmd = [vcommon.tool(v, "sqfsdiff"), "-a", ctx["img"], "-b", ctx["img2"]]
        want_stdout = True
    e = dict(os.environ)
    e.update(vbuild.ASAN_ENV)
    e["LC_ALL"] = "C"
    e.pop("SOURCE_DATE_EPOCH", None)
    if env:
        e.update(env)
    if preload:
        e["LD_PRELOAD"] = preload
    res = Outcome()
    sofh = open(stdout_path, "wb") if stdout_path else None     # e.g. /dev/full: every write to standard output fails with ENOSPC
    p = subprocess.Popen(cmd, stdin=subprocess.PIPE if stdin is not None else subprocess.DEVNULL, stdout=sofh or subprocess.PIPE, stderr=subprocess.PIPE,
                         env=e, cwd=cwd, start_new_session=True)
    if sofh:
        sofh.close()
    outbuf = []

    def feeder():
        try:
            if feed_chunk:
                for i in range(0, len(stdin), feed_chunk):
                    p.stdin.write(stdin[i:i + feed_chunk])
                    p.stdin.flush()
            else:
                p.stdin.write(stdin)
            p.stdin.close()
        except (BrokenPipeError, OSError, ValueError):
            try:
                p.stdin.close()
            except Exception:
                pass

    def drainer():
        if p.stdout is None:
            return
        fd = p.stdout.fileno()
        while True:
            try:
                b = os.read(fd, drain_chunk or 65536)
            except OSError:
                break
            if not b:
                break
            outbuf.append(b)
    errbuf = []

    def errdrain():
        while True:
            b = p.stderr.read(65536)
            if not b:
                break
            errbuf.append(b)
    ths = [threading.Thread(target=drainer, daemon=True), threading.Thread(target=errdrain, daemon=True)]
    if stdin is not None:
        ths.append(threading.Thread(target=feeder, daemon=True))
    for t in ths:
        t.start()
    try:
        p.wait(timeout=timeout)
        res.timeout = False
    except subprocess.TimeoutExpired:
        try:
            os.killpg(p.pid, signal.SIGKILL)
        except OSError:
            pass
        p.wait()
        res.timeout = True
    for t in ths:
        t.join(5)
    res.rc = p.returncode
    res.err = b"".join(errbuf)
    so = b"".join(outbuf)
    res.stdout_len = len(so)
    r = vcommon.Run()
    r.rc, r.err, r.out, r.timeout = res.rc, res.err, so, res.timeout
    res.san = r.sanitizer()
    res.out = out
    res.exists = bool(out and os.path.lexists(out)) if kind in PACKERS else None
    if want_stdout:
        res.digest = hashlib.sha256(so).hexdigest()
    elif kind == "rd_unpack":
        res.digest = snapshot_tree(out, "-T" in case.get("flags", []))[0] if res.rc == 0 else None
    else:
        res.digest = hashlib.sha256(open(out, "rb").read()).hexdigest() if os.path.exists(out) else None
    return res
