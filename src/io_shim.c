/* io_shim - LD_PRELOAD shim that perturbs or fails the I/O system calls of a tool.
 *
 * VERIF_IO_MODE = count | short | fail | eof | kill
 * VERIF_IO_LOG  = file that receives one summary line at exit (and one line per delivered perturbation)
 * VERIF_IO_SEED = seed for 'short'
 * short: every read/write/pread/pwrite is, by a seeded choice, completed in full, cut to 1..n-1 bytes, or
 *        (nothing transferred) interrupted with EINTR.  VERIF_IO_SHORT_K=k: only the k-th data call is perturbed
 *        (VERIF_IO_SHORT_KIND = one|half|eintr).
 * fail : the VERIF_IO_FAIL_K-th call of class VERIF_IO_FAIL_CLASS (write|read|open|trunc|sync|seek) fails with
 *        VERIF_IO_FAIL_ERRNO (number); VERIF_IO_FAIL_EINTR_FIRST=1 delivers EINTR once before the error.
 * eof  : the VERIF_IO_FAIL_K-th read-like call returns 0.
 * kill : SIGKILL to self immediately before the VERIF_IO_KILL_K-th write-like call (write/pwrite/ftruncate)
 *        that targets the file VERIF_IO_TARGET.
 * Only outcomes POSIX allows are produced.  fd 2 (stderr) is never touched.
 */
#include <dlfcn.h>
#include <errno.h>
#include <fcntl.h>
#include <signal.h>
#include <stdarg.h>
#include <stdio.h>
#include <stdlib.h>
#include <string.h>
#include <sys/stat.h>
#include <sys/types.h>
#include <unistd.h>

enum { M_OFF, M_COUNT, M_SHORT, M_FAIL, M_EOF, M_KILL };
enum { C_WRITE, C_READ, C_OPEN, C_TRUNC, C_SYNC, C_SEEK, C_N };
static const char *cname[C_N] = { "write", "read", "open", "trunc", "sync", "seek" };

static int mode, fail_class = -1, fail_errno = EIO, eintr_first, short_kind;
static long fail_k = -1, kill_k = -1, short_k = -1;
static unsigned long long rng;
static long count[C_N], target_writes, delivered_short, delivered_eintr, delivered_fail, data_calls;
static char target[4096];
static unsigned char is_target[4096];
static char logpath[4096];
static int inited;

static ssize_t (*r_read)(int, void *, size_t);
static ssize_t (*r_write)(int, const void *, size_t);
static ssize_t (*r_pread)(int, void *, size_t, off_t);
static ssize_t (*r_pwrite)(int, const void *, size_t, off_t);
static int (*r_ftruncate)(int, off_t);
static int (*r_fsync)(int);
static int (*r_open)(const char *, int, ...);
static int (*r_openat)(int, const char *, int, ...);
static off_t (*r_lseek)(int, off_t, int);
static int (*r_close)(int);

static void logline(const char *fmt, ...)
{
	char buf[512];
	va_list ap;
	int n, fd;
	if (!logpath[0])
		return;
	va_start(ap, fmt);
	n = vsnprintf(buf, sizeof(buf), fmt, ap);
	va_end(ap);
	fd = r_open(logpath, O_WRONLY | O_APPEND | O_CREAT, 0644);
	if (fd >= 0) {
		if (r_write(fd, buf, n) < 0) {}
		r_close(fd);
	}
}

static void summary(void)
{
	logline("SUMMARY write=%ld read=%ld open=%ld trunc=%ld sync=%ld seek=%ld target_writes=%ld short=%ld eintr=%ld fail=%ld data=%ld\n",
		count[C_WRITE], count[C_READ], count[C_OPEN], count[C_TRUNC], count[C_SYNC], count[C_SEEK], target_writes,
		delivered_short, delivered_eintr, delivered_fail, data_calls);
}

__attribute__((constructor)) static void init(void)
{
	const char *m;
	if (inited)
		return;
	r_read = dlsym(RTLD_NEXT, "read");
	r_write = dlsym(RTLD_NEXT, "write");
	r_pread = dlsym(RTLD_NEXT, "pread64");
	r_pwrite = dlsym(RTLD_NEXT, "pwrite64");
	r_ftruncate = dlsym(RTLD_NEXT, "ftruncate64");
	r_fsync = dlsym(RTLD_NEXT, "fsync");
	r_open = dlsym(RTLD_NEXT, "open64");
	r_openat = dlsym(RTLD_NEXT, "openat64");
	r_lseek = dlsym(RTLD_NEXT, "lseek64");
	r_close = dlsym(RTLD_NEXT, "close");
	m = getenv("VERIF_IO_MODE");
	if (!m) {
		inited = 1;
		return;
	}
	if (!strcmp(m, "count")) mode = M_COUNT;
	else if (!strcmp(m, "short")) mode = M_SHORT;
	else if (!strcmp(m, "fail")) mode = M_FAIL;
	else if (!strcmp(m, "eof")) mode = M_EOF;
	else if (!strcmp(m, "kill")) mode = M_KILL;
	if (getenv("VERIF_IO_LOG"))
		strncpy(logpath, getenv("VERIF_IO_LOG"), sizeof(logpath) - 1);
	if (getenv("VERIF_IO_SEED"))
		rng = strtoull(getenv("VERIF_IO_SEED"), NULL, 10) * 2654435761ULL + 12345;
	if (getenv("VERIF_IO_FAIL_K"))
		fail_k = atol(getenv("VERIF_IO_FAIL_K"));
	if (getenv("VERIF_IO_KILL_K"))
		kill_k = atol(getenv("VERIF_IO_KILL_K"));
	if (getenv("VERIF_IO_SHORT_K"))
		short_k = atol(getenv("VERIF_IO_SHORT_K"));
	if (getenv("VERIF_IO_SHORT_KIND")) {
		const char *k = getenv("VERIF_IO_SHORT_KIND");
		short_kind = !strcmp(k, "half") ? 1 : !strcmp(k, "eintr") ? 2 : 0;
	}
	if (getenv("VERIF_IO_FAIL_ERRNO"))
		fail_errno = atoi(getenv("VERIF_IO_FAIL_ERRNO"));
	if (getenv("VERIF_IO_FAIL_EINTR_FIRST"))
		eintr_first = atoi(getenv("VERIF_IO_FAIL_EINTR_FIRST"));
	if (getenv("VERIF_IO_FAIL_CLASS")) {
		const char *c = getenv("VERIF_IO_FAIL_CLASS");
		for (int i = 0; i < C_N; ++i)
			if (!strcmp(c, cname[i]))
				fail_class = i;
	}
	if (getenv("VERIF_IO_TARGET"))
		strncpy(target, getenv("VERIF_IO_TARGET"), sizeof(target) - 1);
	atexit(summary);
	__sync_synchronize();
	inited = 1;
}

static unsigned int rnd(void)
{
	rng ^= rng << 13;
	rng ^= rng >> 7;
	rng ^= rng << 17;
	return (unsigned int)(rng >> 11);
}

/* returns 1 if the call must fail now (errno set) */
static int inject(int cls, int fd)
{
	long k;
	if (fd == 2 || mode == M_OFF)
		return 0;
	k = __sync_add_and_fetch(&count[cls], 1);
	if (mode == M_FAIL && cls == fail_class) {
		if (k == fail_k && eintr_first) {
			eintr_first = 0;
			__sync_sub_and_fetch(&count[cls], 1);
			++delivered_eintr;
			logline("EINTR class=%s k=%ld fd=%d\n", cname[cls], k, fd);
			errno = EINTR;
			return 1;
		}
		if (k == fail_k) {
			++delivered_fail;
			logline("FAIL class=%s k=%ld fd=%d errno=%d\n", cname[cls], k, fd, fail_errno);
			errno = fail_errno;
			return 1;
		}
	}
	return 0;
}

static void maybe_kill(int fd)
{
	if (fd >= 0 && fd < (int)sizeof(is_target) && is_target[fd]) {
		long k = __sync_add_and_fetch(&target_writes, 1);
		if (mode == M_KILL && k == kill_k) {
			logline("KILL before target write %ld\n", k);
			raise(SIGKILL);
		}
	}
}

/* decides how many bytes of a data transfer to allow: returns n (full), 1..n-1, or 0 with EINTR (-1) */
static ssize_t shorten(int fd, size_t n, int *eintr)
{
	long k;
	*eintr = 0;
	if (mode != M_SHORT || fd == 2 || n == 0)
		return n;
	k = __sync_add_and_fetch(&data_calls, 1);
	if (short_k >= 0) {
		if (k != short_k)
			return n;
		if (short_kind == 2) {
			*eintr = 1;
			++delivered_eintr;
			logline("EINTR data call %ld fd=%d\n", k, fd);
			return n;
		}
		if (n < 2)
			return n;
		++delivered_short;
		logline("SHORT data call %ld fd=%d %zu -> %zu\n", k, fd, n, short_kind == 1 ? n / 2 : n - 1);
		return short_kind == 1 ? n / 2 : n - 1;
	}
	switch (rnd() % 4) {
	case 0:
		return n;
	case 1:
		*eintr = 1;
		++delivered_eintr;
		return n;
	default:
		if (n < 2)
			return n;
		++delivered_short;
		/* a third of the short transfers are tiny (1..7 bytes): shorter than any magic number or length field */
		if (rnd() % 3 == 0)
			return 1 + rnd() % (n - 1 < 7 ? n - 1 : 7);
		return 1 + rnd() % (n - 1);
	}
}

ssize_t read(int fd, void *buf, size_t n)
{
	int e;
	size_t m;
	init();
	if (inject(C_READ, fd))
		return -1;
	if (mode == M_EOF && fd != 2 && count[C_READ] == fail_k) {
		++delivered_fail;
		logline("EOF read k=%ld fd=%d\n", fail_k, fd);
		return 0;
	}
	m = shorten(fd, n, &e);
	if (e) {
		errno = EINTR;
		return -1;
	}
	return r_read(fd, buf, m);
}

ssize_t write(int fd, const void *buf, size_t n)
{
	int e;
	size_t m;
	init();
	maybe_kill(fd);
	if (inject(C_WRITE, fd))
		return -1;
	m = shorten(fd, n, &e);
	if (e) {
		errno = EINTR;
		return -1;
	}
	return r_write(fd, buf, m);
}

ssize_t pread64(int fd, void *buf, size_t n, off_t off)
{
	int e;
	size_t m;
	init();
	if (inject(C_READ, fd))
		return -1;
	if (mode == M_EOF && count[C_READ] == fail_k) {
		++delivered_fail;
		logline("EOF pread k=%ld fd=%d\n", fail_k, fd);
		return 0;
	}
	m = shorten(fd, n, &e);
	if (e) {
		errno = EINTR;
		return -1;
	}
	return r_pread(fd, buf, m, off);
}

ssize_t pread(int fd, void *buf, size_t n, off_t off) { return pread64(fd, buf, n, off); }

ssize_t pwrite64(int fd, const void *buf, size_t n, off_t off)
{
	int e;
	size_t m;
	init();
	maybe_kill(fd);
	if (inject(C_WRITE, fd))
		return -1;
	m = shorten(fd, n, &e);
	if (e) {
		errno = EINTR;
		return -1;
	}
	return r_pwrite(fd, buf, m, off);
}

ssize_t pwrite(int fd, const void *buf, size_t n, off_t off) { return pwrite64(fd, buf, n, off); }

int ftruncate64(int fd, off_t len)
{
	init();
	maybe_kill(fd);
	if (inject(C_TRUNC, fd))
		return -1;
	return r_ftruncate(fd, len);
}

int ftruncate(int fd, off_t len) { return ftruncate64(fd, len); }

int fsync(int fd)
{
	init();
	if (inject(C_SYNC, fd))
		return -1;
	return r_fsync(fd);
}

off_t lseek64(int fd, off_t off, int whence)
{
	init();
	if (inject(C_SEEK, fd))
		return -1;
	return r_lseek(fd, off, whence);
}

off_t lseek(int fd, off_t off, int whence) { return lseek64(fd, off, whence); }

static void note_open(int fd, const char *path)
{
	char abs[8192];
	const char *cmp = path;
	if (target[0] && path && path[0] != '/' && getcwd(abs, 4096)) {
		/* relative name: compare cwd/name */
		size_t l = strlen(abs);
		if (l + strlen(path) + 2 < sizeof(abs)) {
			abs[l] = '/';
			strcpy(abs + l + 1, path[0] == '.' && path[1] == '/' ? path + 2 : path);
			cmp = abs;
		}
	}
	if (fd >= 0 && fd < (int)sizeof(is_target))
		is_target[fd] = (target[0] && cmp && !strcmp(cmp, target)) ? 1 : 0;
}

int open64(const char *path, int flags, ...)
{
	mode_t md = 0;
	int fd;
	init();
	if (flags & (O_CREAT | O_TMPFILE)) {
		va_list ap;
		va_start(ap, flags);
		md = va_arg(ap, mode_t);
		va_end(ap);
	}
	if (inject(C_OPEN, -1))
		return -1;
	fd = r_open(path, flags, md);
	note_open(fd, path);
	return fd;
}

int open(const char *path, int flags, ...)
{
	mode_t md = 0;
	if (flags & (O_CREAT | O_TMPFILE)) {
		va_list ap;
		va_start(ap, flags);
		md = va_arg(ap, mode_t);
		va_end(ap);
	}
	return open64(path, flags, md);
}

int openat64(int dfd, const char *path, int flags, ...)
{
	mode_t md = 0;
	int fd;
	init();
	if (flags & (O_CREAT | O_TMPFILE)) {
		va_list ap;
		va_start(ap, flags);
		md = va_arg(ap, mode_t);
		va_end(ap);
	}
	if (inject(C_OPEN, -1))
		return -1;
	fd = r_openat(dfd, path, flags, md);
	note_open(fd, NULL);
	return fd;
}

int openat(int dfd, const char *path, int flags, ...)
{
	mode_t md = 0;
	if (flags & (O_CREAT | O_TMPFILE)) {
		va_list ap;
		va_start(ap, flags);
		md = va_arg(ap, mode_t);
		va_end(ap);
	}
	return openat64(dfd, path, flags, md);
}

int dup(int fd)
{
	static int (*r_dup)(int);
	int n;
	init();
	if (!r_dup)
		r_dup = dlsym(RTLD_NEXT, "dup");
	n = r_dup(fd);
	if (n >= 0 && n < (int)sizeof(is_target) && fd >= 0 && fd < (int)sizeof(is_target))
		is_target[n] = is_target[fd];
	return n;
}

int dup2(int fd, int nfd)
{
	static int (*r_dup2)(int, int);
	int n;
	init();
	if (!r_dup2)
		r_dup2 = dlsym(RTLD_NEXT, "dup2");
	n = r_dup2(fd, nfd);
	if (n >= 0 && n < (int)sizeof(is_target) && fd >= 0 && fd < (int)sizeof(is_target))
		is_target[n] = is_target[fd];
	return n;
}

int close(int fd)
{
	init();
	if (fd >= 0 && fd < (int)sizeof(is_target))
		is_target[fd] = 0;
	return r_close(fd);
}
