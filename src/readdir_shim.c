/* readdir_shim - LD_PRELOAD shim that permutes the order in which readdir() returns directory entries.
 * VERIF_RD_MODE = identity | reverse | sorted | random ; VERIF_RD_SEED ; VERIF_RD_LOG (one line per directory:
 * number of entries and whether the delivered order differs from the native one).
 */
#include <dirent.h>
#include <dlfcn.h>
#include <fcntl.h>
#include <stdio.h>
#include <stdlib.h>
#include <string.h>
#include <unistd.h>
#include <sys/stat.h>
#include <limits.h>

struct dstate {
	DIR *dir;
	struct dirent *ents;
	size_t count, pos;
	struct dstate *next;
};

static struct dstate *states;
static struct dirent *(*r_readdir)(DIR *);
static int (*r_closedir)(DIR *);
static int mode = -1;
static unsigned long long rng = 88172645463325252ULL;

static unsigned int rnd(void)
{
	rng ^= rng << 13;
	rng ^= rng >> 7;
	rng ^= rng << 17;
	return (unsigned int)(rng >> 11);
}

static int cmp_name(const void *a, const void *b)
{
	return strcmp(((const struct dirent *)a)->d_name, ((const struct dirent *)b)->d_name);
}

__attribute__((constructor)) static void init(void)
{
	const char *m;
	if (mode >= 0)
		return;
	r_readdir = dlsym(RTLD_NEXT, "readdir64");
	r_closedir = dlsym(RTLD_NEXT, "closedir");
	m = getenv("VERIF_RD_MODE");
	mode = 0;
	if (m && !strcmp(m, "reverse")) mode = 1;
	if (m && !strcmp(m, "sorted")) mode = 2;
	if (m && !strcmp(m, "random")) mode = 3;
	if (getenv("VERIF_RD_SEED"))
		rng ^= strtoull(getenv("VERIF_RD_SEED"), NULL, 10) * 0x9E3779B97F4A7C15ULL;
}

static struct dstate *load(DIR *d)
{
	struct dstate *s = calloc(1, sizeof(*s));
	struct dirent *e, *native;
	size_t cap = 0, i;
	int differs = 0;
	const char *log = getenv("VERIF_RD_LOG");

	s->dir = d;
	while ((e = r_readdir(d)) != NULL) {
		if (s->count == cap) {
			cap = cap ? cap * 2 : 16;
			s->ents = realloc(s->ents, cap * sizeof(*s->ents));
		}
		s->ents[s->count++] = *e;
	}
	native = malloc((s->count + 1) * sizeof(*native));
	memcpy(native, s->ents, s->count * sizeof(*native));
	if (mode == 1) {
		for (i = 0; i < s->count / 2; ++i) {
			struct dirent t = s->ents[i];
			s->ents[i] = s->ents[s->count - 1 - i];
			s->ents[s->count - 1 - i] = t;
		}
	} else if (mode == 2) {
		qsort(s->ents, s->count, sizeof(*s->ents), cmp_name);
	} else if (mode == 3) {
		for (i = s->count; i > 1; --i) {
			size_t j = rnd() % i;
			struct dirent t = s->ents[i - 1];
			s->ents[i - 1] = s->ents[j];
			s->ents[j] = t;
		}
	}
	for (i = 0; i < s->count; ++i)
		if (strcmp(native[i].d_name, s->ents[i].d_name))
			differs = 1;
	free(native);
	if (log) {
		int fd = open(log, O_WRONLY | O_APPEND | O_CREAT, 0644);
		if (fd >= 0) {
			char buf[64];
			int n = snprintf(buf, sizeof(buf), "DIR entries=%zu differs=%d\n", s->count, differs);
			if (write(fd, buf, n) < 0) {}
			close(fd);
		}
	}
	s->next = states;
	states = s;
	return s;
}

static struct dirent *next_entry(DIR *d)
{
	struct dstate *s;
	init();
	for (s = states; s != NULL; s = s->next)
		if (s->dir == d)
			break;
	if (s == NULL)
		s = load(d);
	if (s->pos >= s->count)
		return NULL;
	return &s->ents[s->pos++];
}

/* struct dirent and struct dirent64 have the same layout on LP64 */
struct dirent64 *readdir64(DIR *d) { return (struct dirent64 *)next_entry(d); }
struct dirent *readdir(DIR *d) { return next_entry(d); }

int closedir(DIR *d)
{
	struct dstate **p, *s;
	init();
	for (p = &states; *p != NULL; p = &(*p)->next) {
		if ((*p)->dir == d) {
			s = *p;
			*p = s->next;
			free(s->ents);
			free(s);
			break;
		}
	}
	return r_closedir(d);
}


/* ---- a pretended mount point: everything at or below a path that ends in VERIF_RD_MOUNT_SUFFIX reports another st_dev ---- */
static int (*r_fstatat)(int, const char *, struct stat *, int);
static int (*r_fstat)(int, struct stat *);

static int below_mount(const char *path)
{
	const char *suf = getenv("VERIF_RD_MOUNT_SUFFIX"), *p;
	size_t l;
	if (suf == NULL || suf[0] == '\0')
		return 0;
	l = strlen(suf);
	p = strstr(path, suf);
	return p != NULL && (p[l] == '\0' || p[l] == '/');
}

static void fd_path(int fd, char *buf, size_t n)
{
	char link[64];
	ssize_t r;
	snprintf(link, sizeof(link), "/proc/self/fd/%d", fd);
	r = readlink(link, buf, n - 1);
	buf[r > 0 ? r : 0] = '\0';
}

static int my_fstatat(int dfd, const char *name, struct stat *sb, int flags)
{
	char path[PATH_MAX * 2];
	int ret;
	if (!r_fstatat)
		r_fstatat = dlsym(RTLD_NEXT, "fstatat64");
	ret = r_fstatat(dfd, name, sb, flags);
	if (ret != 0 || getenv("VERIF_RD_MOUNT_SUFFIX") == NULL)
		return ret;
	if (name[0] == '/' || dfd == AT_FDCWD) {
		snprintf(path, sizeof(path), "%s", name);
	} else {
		size_t l;
		fd_path(dfd, path, PATH_MAX);
		l = strlen(path);
		if (!strcmp(name, "..")) {
			char *sl = strrchr(path, '/');
			if (sl && sl != path)
				*sl = '\0';
		} else if (strcmp(name, ".") != 0) {
			snprintf(path + l, sizeof(path) - l, "/%s", name);
		}
	}
	if (below_mount(path))
		sb->st_dev += 7;
	return ret;
}

int fstatat64(int dfd, const char *name, struct stat64 *sb, int flags) { return my_fstatat(dfd, name, (struct stat *)sb, flags); }
int fstatat(int dfd, const char *name, struct stat *sb, int flags) { return my_fstatat(dfd, name, sb, flags); }

static int my_fstat(int fd, struct stat *sb)
{
	char path[PATH_MAX];
	int ret;
	if (!r_fstat)
		r_fstat = dlsym(RTLD_NEXT, "fstat64");
	ret = r_fstat(fd, sb);
	if (ret != 0 || getenv("VERIF_RD_MOUNT_SUFFIX") == NULL)
		return ret;
	fd_path(fd, path, sizeof(path));
	if (below_mount(path))
		sb->st_dev += 7;
	return ret;
}

int fstat64(int fd, struct stat64 *sb) { return my_fstat(fd, (struct stat *)sb); }
int fstat(int fd, struct stat *sb) { return my_fstat(fd, sb); }
