// vsched - controlled scheduler + client programs for the worker pool (C09).
//
// Every logical thread runs on a real pthread, but exactly one runs at a time; at every intercepted synchronisation
// operation (and at worker callback entry/exit) the running thread consults a *choice sequence* to decide who runs next.
// cond_wait may additionally be woken spuriously (a choice).  No runnable thread while some thread is unfinished = deadlock.
//
//   vsched run <W> <N> <failmask> <prog> <bound> <choices...>     one execution (in this process); prints a JSON line
//   vsched dfs <W> <N> <failmask> <prog> <bound> <maxexec>   stateless DFS over all schedules with at most <bound>
//                                                                  preemptions (bound<0: unbounded); every execution is a fork
//   vsched rand <W> <N> <failmask> <prog> <seed> <count>          random schedules (uniform choice among enabled, spurious wake-ups)
//
// <prog>: string over {S,D,G}: S = submit next item, D = dequeue, G = get_status; afterwards the client drains (dequeue until
// NULL) and destroys the pool.  <failmask>: bit i set = the worker callback fails (returns i+1) for item i.
// <prog> "B:<spec>": block processor client (see below); there <failmask> bit k (k<8) poisons the first block of file k and
// bit 8+k its last block / tail: the compressor handed to the block processor fails on a poisoned block.
#include <pthread.h>
#include <unistd.h>
#include <sys/wait.h>
#include <cstdio>
#include <cstdlib>
#include <cstring>
#include <string>
#include <vector>
#include <map>
#include <random>

#include "vsched_shim.h"
#undef pthread_mutex_init
#undef pthread_mutex_destroy
#undef pthread_mutex_lock
#undef pthread_mutex_unlock
#undef pthread_cond_init
#undef pthread_cond_destroy
#undef pthread_cond_wait
#undef pthread_cond_broadcast
#undef pthread_cond_signal
#undef pthread_create
#undef pthread_join
#undef pthread_sigmask

extern "C" {
#include "util/threadpool.h"
#include "sqfs/block_processor.h"
#include "sqfs/block_writer.h"
#include "sqfs/frag_table.h"
#include "sqfs/compressor.h"
#include "sqfs/inode.h"
#include "sqfs/block.h"
#include "sqfs/error.h"
#include "sqfs/io.h"
}

// ------------------------------------------------------------------------------------------------ scheduler
enum State { RUNNABLE, B_MUTEX, B_COND, B_JOIN, FINISHED };

struct LThread {
	int id;
	State st = RUNNABLE;
	void *obj = nullptr;        // mutex / cond / joined thread it waits for
	pthread_mutex_t *remutex = nullptr;
	pthread_t real;
	pthread_cond_t cv;
	void *(*fn)(void *) = nullptr;
	void *arg = nullptr;
	bool spurious = false;      // woken from cond_wait without a signal
	bool holds_lock = false;
};

static pthread_mutex_t G = PTHREAD_MUTEX_INITIALIZER;
static std::vector<LThread *> threads;
static int cur = 0;
static std::map<void *, int> mutex_owner;   // -1 free
static std::vector<int> choices;            // prefix to follow
static size_t choice_pos = 0;
struct Step { int chosen, enabled, preempt; };
static std::vector<Step> trace;
static int preemptions = 0, preempt_bound = -1, spurious_budget = 1;
static bool random_mode = false;
static std::mt19937_64 rng;
static int result_fd = 1;
static long context_switches = 0, real_preemptions = 0;

static void report_and_exit(const char *kind, const char *msg)
{
	std::string s = "{\"result\": \"";
	s += kind;
	s += "\", \"msg\": \"";
	s += msg;
	s += "\", \"switches\": " + std::to_string(context_switches) + ", \"preemptions\": " + std::to_string(real_preemptions) + ", \"trace\": [";
	for (size_t i = 0; i < trace.size(); ++i) {
		if (i)
			s += ",";
		s += "[" + std::to_string(trace[i].chosen) + "," + std::to_string(trace[i].enabled) + "," + std::to_string(trace[i].preempt) + "]";
	}
	s += "]}\n";
	if (write(result_fd, s.data(), s.size()) < 0) {}
	_exit(strcmp(kind, "ok") == 0 ? 0 : 3);
}

static int self_id()
{
	pthread_t me = pthread_self();
	for (auto *t : threads)
		if (pthread_equal(t->real, me))
			return t->id;
	return 0;
}

// pick the next thread to run; called with G held by the thread that is at a scheduling point
static void schedule(int me)
{
	std::vector<int> en;
	for (auto *t : threads) {
		if (t->st == RUNNABLE)
			en.push_back(t->id);
	}
	// spurious wake-up of a thread blocked in cond_wait is an additional alternative
	std::vector<int> sp;
	if (spurious_budget > 0)
		for (auto *t : threads)
			if (t->st == B_COND)
				sp.push_back(t->id);
	size_t total = en.size() + sp.size();
	if (en.empty() && sp.empty()) {
		bool all_done = true;
		for (auto *t : threads)
			if (t->st != FINISHED)
				all_done = false;
		if (all_done)
			return;
		std::string who;
		for (auto *t : threads)
			if (t->st != FINISHED)
				who += " T" + std::to_string(t->id) + (t->st == B_MUTEX ? ":mutex" : t->st == B_COND ? ":cond" : t->st == B_JOIN ? ":join" : ":?");
		report_and_exit("deadlock", ("no runnable thread;" + who).c_str());
	}
	// canonical order: the current thread first (choice 0 = no preemption), then the others by id, then spurious wake-ups
	std::vector<int> order;
	bool me_enabled = false;
	for (int id : en)
		if (id == me)
			me_enabled = true;
	if (me_enabled)
		order.push_back(me);
	for (int id : en)
		if (id != me)
			order.push_back(id);
	size_t nreal = order.size();
	for (int id : sp)
		order.push_back(id);
	int pick = 0;
	int n_alt = (int)order.size();
	if (me_enabled && preempt_bound >= 0 && preemptions >= preempt_bound)
		n_alt = 1;     // no more preemptions allowed: the current thread continues
	if (choice_pos < choices.size()) {
		pick = choices[choice_pos] % n_alt;
	} else if (random_mode) {
		pick = (int)(rng() % (unsigned)n_alt);
		// make spurious wake-ups rarer
		if (pick >= (int)nreal && (rng() % 4) != 0)
			pick = (int)(rng() % (unsigned)(nreal ? nreal : 1));
		if (nreal == 0)
			pick = (int)(rng() % (unsigned)n_alt);
	} else {
		pick = 0;
	}
	choice_pos++;
	trace.push_back({pick, n_alt, me_enabled ? 1 : 0});
	int next = order[pick];
	if (me_enabled && next != me) {
		preemptions++;
		if (!threads[me]->holds_lock)
			real_preemptions++;
	}
	if ((size_t)pick >= nreal) {
		spurious_budget--;
		threads[next]->st = RUNNABLE;
		threads[next]->spurious = true;
	}
	if (next != me)
		context_switches++;
	cur = next;
	pthread_cond_signal(&threads[next]->cv);
}

static void wait_turn(int me)
{
	while (cur != me)
		pthread_cond_wait(&threads[me]->cv, &G);
}

// a scheduling point of a thread that stays runnable
static void yield_point()
{
	pthread_mutex_lock(&G);
	int me = self_id();
	schedule(me);
	wait_turn(me);
	pthread_mutex_unlock(&G);
}

static void block_and_switch(int me)
{
	schedule(me);
	wait_turn(me);
}

extern "C" {

int vs_mutex_init(pthread_mutex_t *m, const pthread_mutexattr_t *) { pthread_mutex_lock(&G); mutex_owner[m] = -1; pthread_mutex_unlock(&G); return 0; }
int vs_mutex_destroy(pthread_mutex_t *m) { pthread_mutex_lock(&G); mutex_owner.erase(m); pthread_mutex_unlock(&G); return 0; }

int vs_mutex_lock(pthread_mutex_t *m)
{
	pthread_mutex_lock(&G);
	int me = self_id();
	schedule(me);          // others may run before we try
	wait_turn(me);
	while (mutex_owner[m] != -1) {
		threads[me]->st = B_MUTEX;
		threads[me]->obj = m;
		block_and_switch(me);
	}
	mutex_owner[m] = me;
	threads[me]->holds_lock = true;
	pthread_mutex_unlock(&G);
	return 0;
}

static void release_mutex(pthread_mutex_t *m, int me)
{
	mutex_owner[m] = -1;
	threads[me]->holds_lock = false;
	for (auto *t : threads)
		if (t->st == B_MUTEX && t->obj == m)
			t->st = RUNNABLE;
}

int vs_mutex_unlock(pthread_mutex_t *m)
{
	pthread_mutex_lock(&G);
	int me = self_id();
	release_mutex(m, me);
	/* no scheduling point here: the next visible operation of this thread has its own */
	pthread_mutex_unlock(&G);
	return 0;
}

int vs_cond_init(pthread_cond_t *, const pthread_condattr_t *) { return 0; }
int vs_cond_destroy(pthread_cond_t *) { return 0; }

int vs_cond_wait(pthread_cond_t *c, pthread_mutex_t *m)
{
	pthread_mutex_lock(&G);
	int me = self_id();
	release_mutex(m, me);
	threads[me]->st = B_COND;
	threads[me]->obj = c;
	block_and_switch(me);
	// woken (by broadcast/signal or spuriously): re-acquire the mutex
	while (mutex_owner[m] != -1) {
		threads[me]->st = B_MUTEX;
		threads[me]->obj = m;
		block_and_switch(me);
	}
	mutex_owner[m] = me;
	threads[me]->holds_lock = true;
	pthread_mutex_unlock(&G);
	return 0;
}

int vs_cond_broadcast(pthread_cond_t *c)
{
	pthread_mutex_lock(&G);
	for (auto *t : threads)
		if (t->st == B_COND && t->obj == c)
			t->st = RUNNABLE;
	pthread_mutex_unlock(&G);
	return 0;
}

int vs_cond_signal(pthread_cond_t *c)
{
	pthread_mutex_lock(&G);
	for (auto *t : threads)
		if (t->st == B_COND && t->obj == c) {
			t->st = RUNNABLE;
			break;
		}
	pthread_mutex_unlock(&G);
	return 0;
}

static void *trampoline(void *p)
{
	LThread *t = (LThread *)p;
	pthread_mutex_lock(&G);
	wait_turn(t->id);
	pthread_mutex_unlock(&G);
	t->fn(t->arg);
	pthread_mutex_lock(&G);
	t->st = FINISHED;
	for (auto *o : threads)
		if (o->st == B_JOIN && o->obj == t)
			o->st = RUNNABLE;
	schedule(t->id);
	pthread_mutex_unlock(&G);
	return nullptr;
}

int vs_create(pthread_t *out, const pthread_attr_t *, void *(*fn)(void *), void *arg)
{
	pthread_mutex_lock(&G);
	LThread *t = new LThread();
	t->id = (int)threads.size();
	t->fn = fn;
	t->arg = arg;
	pthread_cond_init(&t->cv, nullptr);
	threads.push_back(t);
	pthread_create(&t->real, nullptr, trampoline, t);
	*out = t->real;
	pthread_mutex_unlock(&G);
	return 0;
}

int vs_join(pthread_t th, void **)
{
	pthread_mutex_lock(&G);
	int me = self_id();
	LThread *t = nullptr;
	for (auto *o : threads)
		if (pthread_equal(o->real, th))
			t = o;
	while (t && t->st != FINISHED) {
		threads[me]->st = B_JOIN;
		threads[me]->obj = t;
		block_and_switch(me);
	}
	pthread_mutex_unlock(&G);
	return 0;
}

int vs_sigmask(int, const sigset_t *, sigset_t *) { return 0; }

}

// ------------------------------------------------------------------------------------------------ client program
struct Item { int idx; int processed = 0; int worker = -1; int dequeued = 0; };
struct WorkerCtx { int id; int in_use = 0; };
static std::vector<Item> items;
static std::vector<WorkerCtx> ctxs;
static unsigned failmask;
static std::string violation;

static void inv_fail(const std::string &s)
{
	if (violation.empty())
		violation = s;
	report_and_exit("violation", violation.c_str());
}

static int worker_cb(void *user, void *work)
{
	WorkerCtx *c = (WorkerCtx *)user;
	Item *it = (Item *)work;
	if (c == nullptr)
		inv_fail("worker callback without its context");
	if (c->in_use)
		inv_fail("per-worker context used by two callbacks at once");
	c->in_use = 1;
	yield_point();             // the callback takes "time": others may run
	it->processed++;
	if (it->processed > 1)
		inv_fail("work item processed twice");
	it->worker = c->id;
	yield_point();
	c->in_use = 0;
	return (failmask >> it->idx) & 1 ? it->idx + 1 : 0;
}

static int run_blockproc(int W, int N, const std::string &spec);

static int run_client(int W, int N, const std::string &prog)
{
	if (prog.size() > 2 && prog[0] == 'B' && prog[1] == ':')
		return run_blockproc(W, N, prog.substr(2));
	LThread *main_t = new LThread();
	main_t->id = 0;
	main_t->real = pthread_self();
	pthread_cond_init(&main_t->cv, nullptr);
	threads.push_back(main_t);
	cur = 0;

	items.resize(N);
	for (int i = 0; i < N; ++i)
		items[i].idx = i;
	ctxs.resize(W);
	thread_pool_t *pool = thread_pool_create(W, worker_cb);
	if (!pool)
		report_and_exit("error", "pool creation failed");
	if ((int)pool->get_worker_count(pool) != W)
		inv_fail("worker count differs from the requested one");
	for (int i = 0; i < W; ++i) {
		ctxs[i].id = i;
		pool->set_worker_ptr(pool, i, &ctxs[i]);
	}
	int submitted = 0, dequeued = 0;
	bool failed_seen = false;
	auto do_dequeue = [&]() {
		Item *it = (Item *)pool->dequeue(pool);
		if (it == nullptr) {
			int st = pool->get_status(pool);
			if (st == 0 && dequeued < submitted)
				inv_fail("dequeue returned NULL although items are in the pipeline and no failure was reported");
			if (st != 0)
				failed_seen = true;
			return false;
		}
		if (it->dequeued)
			inv_fail("work item handed back twice");
		it->dequeued = 1;
		if (!it->processed)
			inv_fail("work item handed back before it was processed");
		if (it->idx != dequeued && !failed_seen && pool->get_status(pool) == 0)
			inv_fail("work items handed back out of submission order");
		if (it->idx < dequeued)
			inv_fail("work items handed back out of submission order");
		dequeued = it->idx + 1;
		return true;
	};
	for (char op : prog) {
		if (op == 'S' && submitted < N) {
			int r = pool->submit(pool, &items[submitted]);
			if (r != 0) {
				if (pool->get_status(pool) == 0)
					inv_fail("submit failed although no worker reported a failure");
				failed_seen = true;
			} else {
				submitted++;
			}
		} else if (op == 'D') {
			do_dequeue();
		} else if (op == 'G') {
			if (pool->get_status(pool) != 0)
				failed_seen = true;
		}
	}
	// drain
	for (int guard = 0; guard < 4 * N + 4; ++guard)
		if (!do_dequeue())
			break;
	int st = pool->get_status(pool);
	if (st == 0) {
		for (int i = 0; i < submitted; ++i) {
			if (items[i].processed != 1)
				inv_fail("a submitted item was not processed exactly once");
			if (!items[i].dequeued)
				inv_fail("a submitted item was never handed back");
		}
		if (failmask & ((1u << submitted) - 1))
			inv_fail("a worker failure was not reported by get_status");
	} else {
		bool any = false;
		for (int i = 0; i < submitted; ++i)
			if (((failmask >> i) & 1) && items[i].processed)
				any = true;
		if (!any)
			inv_fail("failure status without a failing item having been processed");
	}
	pool->destroy(pool);
	for (auto *t : threads)
		if (t->id != 0 && t->st != FINISHED)
			inv_fail("destroy returned while a worker thread is still alive");
	report_and_exit("ok", "");
	return 0;
}

// ------------------------------------------------------------------------------------------------ block processor client
// prog "B:<size><tag>[!flags],..." : files packed through sqfs_block_processor_* with W workers and backlog N on an in-memory
// output file.  Same tag + same size = identical contents; tag 'z' = zeros.  Invariants per schedule: every file can be read
// back from (block list, fragment) byte-exact, and the digest of (output bytes, inodes, fragment table) equals expect_digest.
static unsigned long long expect_digest = 0;
static bool have_expect = false;

struct MemFile {
	sqfs_file_t base;
	std::vector<unsigned char> *data;
};

static int mf_read_at(sqfs_file_t *f, sqfs_u64 off, void *buf, size_t size)
{
	MemFile *m = (MemFile *)f;
	if (off > m->data->size() || size > m->data->size() - off)
		return SQFS_ERROR_OUT_OF_BOUNDS;
	memcpy(buf, m->data->data() + off, size);
	return 0;
}

static int mf_write_at(sqfs_file_t *f, sqfs_u64 off, const void *buf, size_t size)
{
	MemFile *m = (MemFile *)f;
	if (off + size > m->data->size())
		m->data->resize(off + size, 0);
	memcpy(m->data->data() + off, buf, size);
	return 0;
}

static sqfs_u64 mf_get_size(const sqfs_file_t *f) { return ((const MemFile *)f)->data->size(); }
static int mf_truncate(sqfs_file_t *f, sqfs_u64 size) { ((MemFile *)f)->data->resize(size, 0); return 0; }
static const char *mf_name(sqfs_file_t *) { return "mem"; }
static void mf_destroy(sqfs_object_t *o) { MemFile *m = (MemFile *)o; delete m->data; free(m); }

static unsigned long long fnv64(unsigned long long h, const void *p, size_t n)
{
	const unsigned char *b = (const unsigned char *)p;
	for (size_t i = 0; i < n; ++i)
		h = (h ^ b[i]) * 1099511628211ULL;
	return h;
}

struct BFile { size_t size; char tag; unsigned flags; std::vector<unsigned char> data; sqfs_inode_generic_t *inode = nullptr; };

// compressor that fails (like a compression library running out of memory in a worker) on blocks that start with POISON
static const unsigned char POISON[8] = { 0xde, 0xad, 'F', 'A', 'I', 'L', 0x00, 0x01 };
static int poison_delivered = 0;

struct PoisonCmp {
	sqfs_compressor_t base;
	sqfs_compressor_t *inner;
};

static void pc_get_configuration(const sqfs_compressor_t *c, sqfs_compressor_config_t *cfg)
{
	const PoisonCmp *p = (const PoisonCmp *)c;
	p->inner->get_configuration(p->inner, cfg);
}
static int pc_write_options(sqfs_compressor_t *c, sqfs_file_t *f) { PoisonCmp *p = (PoisonCmp *)c; return p->inner->write_options(p->inner, f); }
static int pc_read_options(sqfs_compressor_t *c, sqfs_file_t *f) { PoisonCmp *p = (PoisonCmp *)c; return p->inner->read_options(p->inner, f); }
static sqfs_s32 pc_do_block(sqfs_compressor_t *c, const sqfs_u8 *in, sqfs_u32 size, sqfs_u8 *out, sqfs_u32 outsize)
{
	PoisonCmp *p = (PoisonCmp *)c;
	if (size >= sizeof(POISON) && memcmp(in, POISON, sizeof(POISON)) == 0) {
		poison_delivered++;
		return SQFS_ERROR_COMPRESSOR;
	}
	return p->inner->do_block(p->inner, in, size, out, outsize);
}
static void pc_destroy(sqfs_object_t *o) { PoisonCmp *p = (PoisonCmp *)o; sqfs_drop(p->inner); free(p); }
static sqfs_object_t *pc_copy(const sqfs_object_t *o);
static sqfs_compressor_t *pc_wrap(sqfs_compressor_t *inner)
{
	PoisonCmp *p = (PoisonCmp *)calloc(1, sizeof(*p));
	sqfs_object_init(p, pc_destroy, pc_copy);
	p->base.get_configuration = pc_get_configuration;
	p->base.write_options = pc_write_options;
	p->base.read_options = pc_read_options;
	p->base.do_block = pc_do_block;
	p->inner = inner;
	return &p->base;
}
static sqfs_object_t *pc_copy(const sqfs_object_t *o)
{
	const PoisonCmp *p = (const PoisonCmp *)o;
	sqfs_compressor_t *ic = (sqfs_compressor_t *)sqfs_copy(p->inner);
	if (ic == nullptr)
		return nullptr;
	return (sqfs_object_t *)pc_wrap(ic);
}

static std::vector<unsigned char> gen_content(char tag, size_t size)
{
	std::vector<unsigned char> v(size, 0);
	if (tag == 'z')
		return v;
	unsigned long long x = 0x9E3779B97F4A7C15ULL * (unsigned char)tag + 12345;
	bool compressible = (tag >= 'A' && tag <= 'Z');
	for (size_t i = 0; i < size; ++i) {
		x ^= x << 13; x ^= x >> 7; x ^= x << 17;
		v[i] = compressible ? (unsigned char)('a' + (x % 3) + (i / 64) % 5) : (unsigned char)(x >> 24);
	}
	return v;
}

static int run_blockproc(int W, int N, const std::string &spec)
{
	LThread *main_t = new LThread();
	main_t->id = 0;
	main_t->real = pthread_self();
	pthread_cond_init(&main_t->cv, nullptr);
	threads.push_back(main_t);
	cur = 0;

	const size_t B = 4096;
	std::vector<BFile> files;
	size_t pos = 0;
	while (pos < spec.size()) {
		size_t e = spec.find(',', pos);
		if (e == std::string::npos)
			e = spec.size();
		std::string ent = spec.substr(pos, e - pos);
		pos = e + 1;
		if (ent.empty())
			continue;
		BFile f;
		char *endp;
		f.size = strtoul(ent.c_str(), &endp, 10);
		f.tag = *endp ? *endp : 'a';
		f.flags = 0;
		if (*endp && endp[1] == '!')
			f.flags = (unsigned)strtoul(endp + 2, nullptr, 0) & SQFS_BLK_USER_SETTABLE_FLAGS;
		f.data = gen_content(f.tag, f.size);
		size_t k = files.size();
		if (k < 8 && f.size >= sizeof(POISON)) {
			if ((failmask >> k) & 1)
				memcpy(f.data.data(), POISON, sizeof(POISON));
			if ((failmask >> (8 + k)) & 1) {
				size_t last = (f.size - 1) / B * B;
				if (f.size - last >= sizeof(POISON))
					memcpy(f.data.data() + last, POISON, sizeof(POISON));
			}
		}
		files.push_back(f);
	}
	MemFile *mf = (MemFile *)calloc(1, sizeof(MemFile));
	mf->data = new std::vector<unsigned char>();
	sqfs_object_init(mf, mf_destroy, nullptr);
	mf->base.read_at = mf_read_at;
	mf->base.write_at = mf_write_at;
	mf->base.get_size = mf_get_size;
	mf->base.truncate = mf_truncate;
	mf->base.get_filename = mf_name;
	mf->data->resize(96, 0xEE);          // stands for the super block: data starts behind it

	sqfs_compressor_config_t cfg;
	sqfs_compressor_t *cmp = nullptr, *uncmp = nullptr;
	sqfs_compressor_config_init(&cfg, SQFS_COMP_GZIP, B, 0);
	if (sqfs_compressor_create(&cfg, &cmp) != 0)
		report_and_exit("error", "compressor");
	if (failmask != 0)
		cmp = pc_wrap(cmp);
	sqfs_compressor_config_init(&cfg, SQFS_COMP_GZIP, B, SQFS_COMP_FLAG_UNCOMPRESS);
	if (sqfs_compressor_create(&cfg, &uncmp) != 0)
		report_and_exit("error", "uncompressor");
	sqfs_block_writer_t *wr = sqfs_block_writer_create(&mf->base, 0);
	sqfs_frag_table_t *tbl = sqfs_frag_table_create(0);
	if (!wr || !tbl)
		report_and_exit("error", "writer / fragment table");
	sqfs_block_processor_desc_t desc;
	memset(&desc, 0, sizeof(desc));
	desc.size = sizeof(desc);
	desc.max_block_size = B;
	desc.num_workers = W;
	desc.max_backlog = N;
	desc.cmp = cmp;
	desc.wr = wr;
	desc.tbl = tbl;
	desc.file = &mf->base;
	desc.uncmp = uncmp;
	sqfs_block_processor_t *proc = nullptr;
	if (sqfs_block_processor_create_ex(&desc, &proc) != 0)
		report_and_exit("error", "block processor");
	// with a poisoned block: a call may fail; then the submitter stops and destroys the processor.  What must not happen is
	// that the compressor failed in a worker and every call reports success.
	int first_err = 0;
	const char *err_where = "";
	for (auto &f : files) {
		int r = sqfs_block_processor_begin_file(proc, &f.inode, nullptr, f.flags);
		if (r && failmask == 0)
			inv_fail("begin_file failed: " + std::to_string(r));
		if (r) { first_err = r; err_where = "begin_file"; break; }
		// feed in two pieces so that append has to assemble blocks
		size_t half = f.size / 3;
		r = half ? sqfs_block_processor_append(proc, f.data.data(), half) : 0;
		if (!r)
			r = sqfs_block_processor_append(proc, f.data.data() + half, f.size - half);
		if (r && failmask == 0)
			inv_fail("append failed: " + std::to_string(r));
		if (r) { first_err = r; err_where = "append"; break; }
		r = sqfs_block_processor_end_file(proc);
		if (r && failmask == 0)
			inv_fail("end_file failed: " + std::to_string(r));
		if (r) { first_err = r; err_where = "end_file"; break; }
	}
	if (!first_err) {
		int r = sqfs_block_processor_finish(proc);
		if (r && failmask == 0)
			inv_fail("finish failed: " + std::to_string(r));
		if (r) { first_err = r; err_where = "finish"; }
	}
	if (failmask != 0) {
		if (first_err && !poison_delivered)
			inv_fail(std::string(err_where) + " failed (" + std::to_string(first_err) + ") although no worker reported a failure");
		if (!first_err && poison_delivered)
			inv_fail("the compressor failed in a worker (" + std::to_string(poison_delivered) + "x) but begin_file/append/end_file/finish all returned 0: "
				 "the failure status is not reported to the submitter");
		if (first_err) {
			sqfs_drop(proc);
			for (auto *t : threads)
				if (t->id != 0 && t->st != FINISHED)
					inv_fail("block processor destroyed after a failure while a worker thread is still alive");
			report_and_exit("ok", (std::string("failure-reported-by-") + err_where).c_str());
		}
		// the poisoned block never reached the compressor (e.g. stored as part of a later fragment block): ordinary run
	}
	// read every file back from the output
	unsigned long long h = 1469598103934665603ULL;
	std::vector<unsigned char> &out = *mf->data;
	std::vector<unsigned char> tmp(B), blk(B);
	for (size_t fi = 0; fi < files.size(); ++fi) {
		BFile &f = files[fi];
		if (f.inode == nullptr)
			inv_fail("file without inode");
		sqfs_u64 fsize = 0, start = 0;
		sqfs_u32 fidx = 0, foff = 0;
		sqfs_inode_get_file_size(f.inode, &fsize);
		sqfs_inode_get_file_block_start(f.inode, &start);
		sqfs_inode_get_frag_location(f.inode, &fidx, &foff);
		size_t nb = sqfs_inode_get_file_block_count(f.inode);
		if (fsize != f.size)
			inv_fail("file " + std::to_string(fi) + ": inode size differs from the data fed in");
		std::vector<unsigned char> got;
		sqfs_u64 p = start;
		for (size_t k = 0; k < nb; ++k) {
			sqfs_u32 w = f.inode->extra[k];
			size_t dsz = SQFS_ON_DISK_BLOCK_SIZE(w);
			size_t want = std::min<size_t>(B, f.size - got.size());
			if (dsz == 0) {
				got.insert(got.end(), want, 0);
				continue;
			}
			if (p + dsz > out.size())
				inv_fail("file " + std::to_string(fi) + ": block beyond the end of the output");
			if (SQFS_IS_BLOCK_COMPRESSED(w)) {
				sqfs_s32 r = uncmp->do_block(uncmp, out.data() + p, dsz, blk.data(), B);
				if (r <= 0)
					inv_fail("file " + std::to_string(fi) + ": block does not unpack");
				got.insert(got.end(), blk.begin(), blk.begin() + r);
			} else {
				got.insert(got.end(), out.begin() + p, out.begin() + p + dsz);
			}
			p += dsz;
		}
		if (got.size() < f.size) {
			if (fidx == 0xFFFFFFFF)
				inv_fail("file " + std::to_string(fi) + ": data missing and no fragment");
			sqfs_fragment_t fr;
			if (sqfs_frag_table_lookup(tbl, fidx, &fr) != 0)
				inv_fail("file " + std::to_string(fi) + ": fragment index out of range");
			size_t dsz = SQFS_ON_DISK_BLOCK_SIZE(fr.size);
			if (fr.start_offset + dsz > out.size())
				inv_fail("file " + std::to_string(fi) + ": fragment block beyond the end of the output");
			size_t fl;
			const unsigned char *fb;
			if (SQFS_IS_BLOCK_COMPRESSED(fr.size)) {
				sqfs_s32 r = uncmp->do_block(uncmp, out.data() + fr.start_offset, dsz, blk.data(), B);
				if (r <= 0)
					inv_fail("file " + std::to_string(fi) + ": fragment block does not unpack");
				fl = r;
				fb = blk.data();
			} else {
				fl = dsz;
				fb = out.data() + fr.start_offset;
			}
			size_t need = f.size - got.size();
			if (foff + need > fl)
				inv_fail("file " + std::to_string(fi) + ": fragment range outside its block");
			got.insert(got.end(), fb + foff, fb + foff + need);
		}
		if (got.size() != f.size || memcmp(got.data(), f.data.data(), f.size) != 0)
			inv_fail("file " + std::to_string(fi) + " does not read back byte-exact");
		h = fnv64(h, &f.inode->base.type, sizeof(f.inode->base.type));
		h = fnv64(h, &fsize, 8);
		h = fnv64(h, &start, 8);
		h = fnv64(h, &fidx, 4);
		h = fnv64(h, &foff, 4);
		h = fnv64(h, f.inode->extra, nb * 4);
	}
	size_t nfr = sqfs_frag_table_get_size(tbl);
	for (size_t i = 0; i < nfr; ++i) {
		sqfs_fragment_t fr;
		sqfs_frag_table_lookup(tbl, i, &fr);
		h = fnv64(h, &fr.start_offset, 8);
		h = fnv64(h, &fr.size, 4);
	}
	h = fnv64(h, out.data(), out.size());
	sqfs_drop(proc);
	for (auto *t : threads)
		if (t->id != 0 && t->st != FINISHED)
			inv_fail("block processor destroyed while a worker thread is still alive");
	char msg[64];
	snprintf(msg, sizeof(msg), "%llx", h);
	if (have_expect && failmask == 0 && h != expect_digest)
		inv_fail(std::string("output bytes / inodes depend on the schedule: digest ") + msg);
	report_and_exit("ok", msg);
	return 0;
}

// ------------------------------------------------------------------------------------------------ drivers
static std::string run_forked(int W, int N, unsigned fm, const std::string &prog, int bound, const std::vector<int> &prefix, bool rnd, unsigned long long seed, int &status)
{
	int p[2];
	if (pipe(p) != 0)
		exit(2);
	pid_t pid = fork();
	if (pid == 0) {
		close(p[0]);
		result_fd = p[1];
		choices = prefix;
		preempt_bound = bound;
		failmask = fm;
		random_mode = rnd;
		rng.seed(seed);
		alarm(20);
		run_client(W, N, prog);
		_exit(0);
	}
	close(p[1]);
	std::string out;
	char buf[4096];
	ssize_t n;
	while ((n = read(p[0], buf, sizeof(buf))) > 0)
		out.append(buf, n);
	close(p[0]);
	waitpid(pid, &status, 0);
	return out;
}

// the first execution of a block processor program defines the digest that all other schedules have to reproduce
static void learn_digest(const std::string &prog, const std::string &out)
{
	if (have_expect || failmask != 0 || prog.compare(0, 2, "B:") != 0)
		return;
	size_t p = out.find("\"result\": \"ok\", \"msg\": \"");
	if (p == std::string::npos)
		return;
	expect_digest = strtoull(out.c_str() + p + 24, nullptr, 16);
	have_expect = true;
}

static std::vector<Step> parse_trace(const std::string &s)
{
	std::vector<Step> t;
	size_t pos = s.find("\"trace\": [");
	if (pos == std::string::npos)
		return t;
	pos += 10;
	while (pos < s.size() && s[pos] != ']') {
		if (s[pos] == '[') {
			int a, b, c;
			if (sscanf(s.c_str() + pos, "[%d,%d,%d]", &a, &b, &c) == 3)
				t.push_back({a, b, c});
			pos = s.find(']', pos) + 1;
		} else {
			pos++;
		}
	}
	return t;
}

int main(int argc, char **argv)
{
	if (argc < 7) {
		fprintf(stderr, "usage\n");
		return 2;
	}
	std::string mode = argv[1];
	int W = atoi(argv[2]), N = atoi(argv[3]);
	unsigned fm = (unsigned)strtoul(argv[4], nullptr, 0);
	std::string prog = argv[5];
	failmask = fm;
	if (mode == "run") {
		preempt_bound = atoi(argv[6]);
		for (int i = 7; i < argc; ++i)
			choices.push_back(atoi(argv[i]));
		failmask = fm;
		if (getenv("VSCHED_EXPECT")) {
			expect_digest = strtoull(getenv("VSCHED_EXPECT"), nullptr, 16);
			have_expect = true;
		}
		alarm(20);
		return run_client(W, N, prog);
	}
	if (mode == "rand") {
		unsigned long long seed = strtoull(argv[6], nullptr, 10);
		long count = atol(argv[7]);
		long done = 0, nontrivial = 0;
		for (long i = 0; i < count; ++i) {
			int status = 0;
			if (i == 0 && prog.compare(0, 2, "B:") == 0) {
				// reference: the schedule without any preemption
				std::string ref = run_forked(W, N, fm, prog, 0, {}, false, 0, status);
				learn_digest(prog, ref);
			}
			std::string out = run_forked(W, N, fm, prog, -1, {}, true, seed * 1000003ULL + i, status);
			done++;
			if (out.find("\"preemptions\": 0,") == std::string::npos)
				nontrivial++;
			if (out.find("\"result\": \"ok\"") == std::string::npos) {
				printf("FAIL %s", out.empty() ? "{\"result\": \"crash-or-timeout\"}\n" : out.c_str());
				printf("{\"mode\": \"rand\", \"executions\": %ld, \"nontrivial\": %ld, \"complete\": false}\n", done, nontrivial);
				return 1;
			}
		}
		printf("{\"mode\": \"rand\", \"executions\": %ld, \"nontrivial\": %ld, \"complete\": false}\n", done, nontrivial);
		return 0;
	}
	// dfs
	int bound = atoi(argv[6]);
	long maxexec = atol(argv[7]);
	std::vector<int> prefix;
	long execs = 0, nontrivial = 0;
	bool complete = false;
	for (;;) {
		int status = 0;
		std::string out = run_forked(W, N, fm, prog, bound, prefix, false, 0, status);
		execs++;
		learn_digest(prog, out);
		std::vector<Step> tr = parse_trace(out);
		if (out.find("\"preemptions\": 0,") == std::string::npos)
			nontrivial++;
		if (out.find("\"result\": \"ok\"") == std::string::npos) {
			printf("FAIL %s", out.empty() ? "{\"result\": \"crash-or-timeout\"}\n" : out.c_str());
			printf("{\"mode\": \"dfs\", \"executions\": %ld, \"nontrivial\": %ld, \"complete\": false}\n", execs, nontrivial);
			return 1;
		}
		// backtrack: last position with an untried alternative
		int i = (int)tr.size() - 1;
		for (; i >= 0; --i) {
			if (tr[i].chosen + 1 < tr[i].enabled)
				break;
		}
		if (i < 0) {
			complete = true;
			break;
		}
		prefix.clear();
		for (int k = 0; k < i; ++k)
			prefix.push_back(tr[k].chosen);
		prefix.push_back(tr[i].chosen + 1);
		if (execs >= maxexec)
			break;
	}
	printf("{\"mode\": \"dfs\", \"executions\": %ld, \"nontrivial\": %ld, \"complete\": %s}\n", execs, nontrivial, complete ? "true" : "false");
	return 0;
}
