"""sqfswrite - independent SquashFS image writer with every on-disk field overridable (from doc/format.adoc).

Metadata is stored uncompressed (so that byte- and field-level mutation hits structure directly); data blocks are
stored raw, or compressed with zlib when data_comp=True.  build(root, ...) returns (image bytes, layout) where
layout is a list of (field name, absolute offset, width) for the structure-aware mutators.

Node description (dict):
  type 'dir'|'file'|'slink'|'blk'|'chr'|'fifo'|'sock'; name (bytes, free form); mode uid gid mtime
  children [nodes] (dir); data bytes (file); target bytes (slink); devno (blk/chr); xattrs {k: v}
  ext  force the extended inode layout;  ino  explicit inode number;  nlink  explicit link count
  link_to  <id of another node>: this directory entry refers to that node's inode (hard link, or a loop when it is a
           directory);  id  any hashable label for link_to
  raw_entries (dir): list of dict(name, ref_id, type, ino_delta ...) replacing the generated listing
  frag True: store the tail in a fragment block
  ov {field: value}: per-inode field overrides applied last (e.g. 'file_size', 'start_block', 'frag_idx', 'nlink',
           'xattr_idx', 'target_size', 'dir_size', 'dir_offset', 'parent', 'uid_idx', 'type')
"""
import struct, zlib

META = 8192
TYPES = {"dir": 1, "file": 2, "slink": 3, "blk": 4, "chr": 5, "fifo": 6, "sock": 7}
S_IF = {"dir": 0o040000, "file": 0o100000, "slink": 0o120000, "blk": 0o060000, "chr": 0o020000, "fifo": 0o010000, "sock": 0o140000}


class MetaStream:
    """an uncompressed metadata table: stream of records cut into 8 KiB blocks, each with a 2 byte header"""

    def __init__(self):
        self.buf = bytearray()

    def pos(self):
        return len(self.buf)

    def ref(self, p=None):
        p = self.pos() if p is None else p
        return ((p // META) * (META + 2)) << 16 | (p % META)

    def blk_off(self, p=None):
        p = self.pos() if p is None else p
        return (p // META) * (META + 2), p % META

    def disk_off(self, p):
        return (p // META) * (META + 2) + 2 + (p % META)

    def write(self, b):
        p = self.pos()
        self.buf += b
        return p

    def serialize(self):
        out = bytearray()
        for i in range(0, len(self.buf), META):
            blk = self.buf[i:i + META]
            out += struct.pack("<H", 0x8000 | len(blk)) + blk
        return bytes(out)


def build(root, block_size=4096, comp_id=1, data_comp=False, mtime=0, flags=None, sb_ov=None, export=True, pad=4096, frag_entries_ov=None,
          id_table_ov=None, xattr_ov=None):
    B = block_size
    layout = []
    # ---------------- collect nodes, ids, xattrs
    order = []

    def walk(n, parent):
        n["_parent"] = parent
        for c in n.get("children", []) or []:
            if "link_to" not in c:
                walk(c, n)
        order.append(n)   # post-order: children before their directory
    walk(root, None)
    by_id = {n["id"]: n for n in order if "id" in n}
    ids = []
    for n in order:
        for k in ("uid", "gid"):
            v = n.get(k, 0)
            if v not in ids:
                ids.append(v)
    if id_table_ov is not None:
        ids = list(id_table_ov)
    # ---------------- data area
    data = bytearray()
    data_start = 96
    frag_buf = bytearray()
    frags = []           # (start, size word)
    pending_frag_nodes = []

    def put_block(b):
        if data_comp:
            c = zlib.compress(b, 9)
            if len(c) < len(b):
                off = data_start + len(data)
                data.extend(c)
                return off, len(c)
        off = data_start + len(data)
        data.extend(b)
        return off, len(b) | (1 << 24)

    def flush_frag():
        if frag_buf:
            off, w = put_block(bytes(frag_buf))
            frags.append((off, w))
            frag_buf.clear()

    for n in order:
        if n["type"] != "file":
            continue
        if n.get("same_as") is not None:
            # stored once: shares location, block list and fragment with an earlier file (what deduplication produces)
            o_ = by_id[n["same_as"]]
            n["data"] = o_.get("data", b"")
            n["_blocks_start"], n["_words"], n["_frag"] = o_["_blocks_start"], list(o_["_words"]), o_["_frag"]
            continue
        d = n.get("data", b"")
        nb = len(d) // B
        use_frag = n.get("frag", False) and len(d) % B
        words = []
        n["_blocks_start"] = data_start + len(data)
        full = nb if use_frag else (len(d) + B - 1) // B
        for k in range(full):
            blk = d[k * B:(k + 1) * B]
            if not any(blk) and n.get("sparse", True) and len(blk) == B:
                words.append(0)
                continue
            off, w = put_block(blk)
            words.append(w)
        n["_words"] = words
        if use_frag:
            tail = d[nb * B:]
            if len(frag_buf) + len(tail) > B:
                flush_frag()
            n["_frag"] = (len(frags), len(frag_buf))
            frag_buf.extend(tail)
        else:
            n["_frag"] = (0xFFFFFFFF, 0)
    flush_frag()
    if frag_entries_ov is not None:
        frags = list(frag_entries_ov)
    # ---------------- xattrs
    xsets = []          # list of list[(key, value)]
    for n in order:
        xa = n.get("xattrs")
        if xa:
            kv = list(xa.items())
            if kv not in xsets:
                xsets.append(kv)
            n["_xidx"] = xsets.index(kv)
        else:
            n["_xidx"] = 0xFFFFFFFF
    # ---------------- inode numbers
    nxt = 1
    for n in order:
        if "ino" in n:
            n["_ino"] = n["ino"]
        else:
            n["_ino"] = nxt
        nxt = max(nxt, n["_ino"]) + 1 if "ino" not in n else nxt
    inode_count = len(order)
    inode_table_start = data_start + len(data)

    # ---------------- two passes: sizes do not depend on reference values
    refs = {}
    for pas in (1, 2):
        im, dm = MetaStream(), MetaStream()
        lay = []
        for n in order:
            t = n["type"]
            ov = n.get("ov", {})
            has_x = n["_xidx"] != 0xFFFFFFFF
            base_type = TYPES[t]
            if t == "dir":
                # ---- listing
                ents = n.get("raw_entries")
                if ents is None:
                    ents = []
                    for c in (n.get("children") or []):
                        tgt = by_id[c["link_to"]] if "link_to" in c else c
                        ents.append(dict(name=c["name"], node=tgt))
                    if n.get("sort", True):
                        ents.sort(key=lambda e: e["name"])
                dstart = dm.pos()
                lst_blk, lst_off = dm.blk_off()
                index = []
                i = 0
                while i < len(ents):
                    # one header per run: same inode block, <=256 entries, delta fits
                    run = []
                    first = ents[i]
                    fr = refs.get(id(first.get("node")), 0) if first.get("node") is not None else first.get("ref", 0)
                    fblk = first.get("hdr_start", fr >> 16)
                    fino = first.get("hdr_ino", first["node"]["_ino"] if first.get("node") is not None else first.get("ino", 1))
                    while i < len(ents) and len(run) < n.get("run_max", 256):
                        e = ents[i]
                        r = refs.get(id(e.get("node")), 0) if e.get("node") is not None else e.get("ref", 0)
                        ino = e["node"]["_ino"] if e.get("node") is not None else e.get("ino", 1)
                        if run and ((r >> 16) != fblk or not -32768 <= ino - fino <= 32767) and not n.get("no_split"):
                            break
                        run.append((e, r, ino))
                        i += 1
                    hp = dm.pos()
                    index.append((hp - dstart, dm.blk_off(hp)[0], run[0][0]["name"]))
                    cnt = n.get("hdr_count_ov", len(run) - 1)
                    lay.append(("dir%d.hdr.count" % n["_ino"], ("d", hp), 4))
                    lay.append(("dir%d.hdr.start" % n["_ino"], ("d", hp + 4), 4))
                    lay.append(("dir%d.hdr.inode" % n["_ino"], ("d", hp + 8), 4))
                    dm.write(struct.pack("<III", cnt & 0xFFFFFFFF, fblk & 0xFFFFFFFF, fino & 0xFFFFFFFF))
                    for e, r, ino in run:
                        ep = dm.pos()
                        et = e.get("type", TYPES[e["node"]["type"]] if e.get("node") is not None else 2)
                        name = e["name"]
                        nsz = e.get("name_size", len(name) - 1)
                        lay.append(("dir%d.ent.offset" % n["_ino"], ("d", ep), 2))
                        lay.append(("dir%d.ent.delta" % n["_ino"], ("d", ep + 2), 2))
                        lay.append(("dir%d.ent.type" % n["_ino"], ("d", ep + 4), 2))
                        lay.append(("dir%d.ent.namesize" % n["_ino"], ("d", ep + 6), 2))
                        dm.write(struct.pack("<HhHH", e.get("offset", r & 0xFFFF), max(-32768, min(32767, e.get("delta", ino - fino))), et, nsz & 0xFFFF) + name)
                lsize = dm.pos() - dstart
                nlink = n.get("nlink", 2 + len(ents))
                par = n["_parent"]["_ino"] if n["_parent"] is not None else inode_count + 1
                dsize = lsize + 3 if ents else 3
                ext = n.get("ext") or has_x or dsize > 0xFFFF or n.get("index")
                refs[id(n)] = im.ref()
                ip = im.pos()
                typ = ov.get("type", base_type + (7 if ext else 0))
                hdr = struct.pack("<HHHHII", typ, (n.get("mode", 0o755) & 0o7777) | (S_IF[t] if not n.get("no_ifmt") else 0), ov.get("uid_idx", ids.index(n.get("uid", 0)) if n.get("uid", 0) in ids else 0),
                                  ov.get("gid_idx", ids.index(n.get("gid", 0)) if n.get("gid", 0) in ids else 0), n.get("mtime", mtime), n["_ino"])
                lay += [("ino%d.type" % n["_ino"], ("i", ip), 2), ("ino%d.uid_idx" % n["_ino"], ("i", ip + 4), 2), ("ino%d.number" % n["_ino"], ("i", ip + 12), 4)]
                if not ext:
                    body = struct.pack("<IIHHI", ov.get("start_block", lst_blk), ov.get("nlink", nlink), ov.get("dir_size", dsize) & 0xFFFF, ov.get("dir_offset", lst_off),
                                       ov.get("parent", par))
                    lay += [("ino%d.dir.start" % n["_ino"], ("i", ip + 16), 4), ("ino%d.dir.nlink" % n["_ino"], ("i", ip + 20), 4),
                            ("ino%d.dir.size" % n["_ino"], ("i", ip + 24), 2), ("ino%d.dir.offset" % n["_ino"], ("i", ip + 26), 2),
                            ("ino%d.dir.parent" % n["_ino"], ("i", ip + 28), 4)]
                else:
                    idx = index if n.get("index") else []
                    body = struct.pack("<IIIIHHI", ov.get("nlink", nlink), ov.get("dir_size", dsize) & 0xFFFFFFFF, ov.get("start_block", lst_blk), ov.get("parent", par),
                                       ov.get("index_count", len(idx)), ov.get("dir_offset", lst_off), ov.get("xattr_idx", n["_xidx"]))
                    lay += [("ino%d.dir.nlink" % n["_ino"], ("i", ip + 16), 4), ("ino%d.dir.size" % n["_ino"], ("i", ip + 20), 4),
                            ("ino%d.dir.start" % n["_ino"], ("i", ip + 24), 4), ("ino%d.dir.parent" % n["_ino"], ("i", ip + 28), 4),
                            ("ino%d.dir.index_count" % n["_ino"], ("i", ip + 32), 2), ("ino%d.dir.offset" % n["_ino"], ("i", ip + 34), 2),
                            ("ino%d.dir.xattr" % n["_ino"], ("i", ip + 36), 4)]
                    for (io, ib, iname) in idx:
                        body += struct.pack("<III", io, ib, len(iname) - 1) + iname
                im.write(hdr + body)
                continue
            refs[id(n)] = im.ref()
            ip = im.pos()
            ext = n.get("ext") or has_x or n.get("nlink", 1) > 1
            nlink = ov.get("nlink", n.get("nlink", 1))
            if t == "file":
                d = n.get("data", b"")
                size = ov.get("file_size", len(d))
                words = n["_words"]
                sparse = sum(min(B, len(d) - k * B) for k, w in enumerate(words) if w == 0)
                ext = ext or sparse or size > 0xFFFFFFFF or n["_blocks_start"] > 0xFFFFFFFF
                fi, fo = n["_frag"]
                if not ext:
                    body = struct.pack("<IIII", ov.get("start_block", n["_blocks_start"]) & 0xFFFFFFFF, ov.get("frag_idx", fi), ov.get("frag_off", fo), size & 0xFFFFFFFF)
                    lay += [("ino%d.file.start" % n["_ino"], ("i", ip + 16), 4), ("ino%d.file.frag_idx" % n["_ino"], ("i", ip + 20), 4),
                            ("ino%d.file.frag_off" % n["_ino"], ("i", ip + 24), 4), ("ino%d.file.size" % n["_ino"], ("i", ip + 28), 4)]
                    wp = ip + 32
                else:
                    body = struct.pack("<QQQIIII", ov.get("start_block", n["_blocks_start"]), size, ov.get("sparse", sparse), nlink, ov.get("frag_idx", fi),
                                       ov.get("frag_off", fo), ov.get("xattr_idx", n["_xidx"]))
                    lay += [("ino%d.file.start" % n["_ino"], ("i", ip + 16), 8), ("ino%d.file.size" % n["_ino"], ("i", ip + 24), 8),
                            ("ino%d.file.sparse" % n["_ino"], ("i", ip + 32), 8), ("ino%d.file.nlink" % n["_ino"], ("i", ip + 40), 4),
                            ("ino%d.file.frag_idx" % n["_ino"], ("i", ip + 44), 4), ("ino%d.file.frag_off" % n["_ino"], ("i", ip + 48), 4),
                            ("ino%d.file.xattr" % n["_ino"], ("i", ip + 52), 4)]
                    wp = ip + 56
                words2 = ov.get("words", words)
                for k, w in enumerate(words2):
                    lay.append(("ino%d.file.blk%d" % (n["_ino"], k), ("i", wp + 4 * k), 4))
                body += b"".join(struct.pack("<I", w & 0xFFFFFFFF) for w in words2)
            elif t == "slink":
                tg = n.get("target", b"x")
                body = struct.pack("<II", nlink, ov.get("target_size", len(tg))) + tg
                lay += [("ino%d.slink.nlink" % n["_ino"], ("i", ip + 16), 4), ("ino%d.slink.size" % n["_ino"], ("i", ip + 20), 4)]
                if ext:
                    body += struct.pack("<I", ov.get("xattr_idx", n["_xidx"]))
            elif t in ("blk", "chr"):
                body = struct.pack("<II", nlink, n.get("devno", 0))
                if ext:
                    body += struct.pack("<I", ov.get("xattr_idx", n["_xidx"]))
            else:
                body = struct.pack("<I", nlink)
                if ext:
                    body += struct.pack("<I", ov.get("xattr_idx", n["_xidx"]))
            typ = ov.get("type", base_type + (7 if ext else 0))
            hdr = struct.pack("<HHHHII", typ, (n.get("mode", 0o644) & 0o7777) | S_IF[t], ov.get("uid_idx", ids.index(n.get("uid", 0)) if n.get("uid", 0) in ids else 0),
                              ov.get("gid_idx", ids.index(n.get("gid", 0)) if n.get("gid", 0) in ids else 0), n.get("mtime", mtime), n["_ino"])
            lay += [("ino%d.type" % n["_ino"], ("i", ip), 2), ("ino%d.uid_idx" % n["_ino"], ("i", ip + 4), 2), ("ino%d.number" % n["_ino"], ("i", ip + 12), 4)]
            im.write(hdr + body)
    root_ref = refs[id(root)]
    itab = im.serialize()
    dtab = dm.serialize()
    dir_table_start = inode_table_start + len(itab)
    pos = dir_table_start + len(dtab)
    out = bytearray()

    def lookup_table(raw, entsize):
        """-> (bytes of blocks + location list, offset of the list relative to the table start)"""
        nonlocal pos
        blocks = bytearray()
        locs = []
        for i in range(0, len(raw), META):
            blk = raw[i:i + META]
            locs.append(pos + len(blocks))
            blocks += struct.pack("<H", 0x8000 | len(blk)) + blk
        lst = pos + len(blocks)
        b = bytes(blocks) + b"".join(struct.pack("<Q", l) for l in locs)
        pos += len(b)
        return b, lst

    tail = bytearray()
    frag_table = 0xFFFFFFFFFFFFFFFF
    if frags:
        raw = b"".join(struct.pack("<QII", s, w, 0) for s, w in frags)
        fbase = pos
        b, frag_table = lookup_table(raw, 16)
        for i in range(len(frags)):
            layout.append(("frag%d.start" % i, fbase + (i // 512) * (META + 2) + 2 + (i % 512) * 16, 8))
            layout.append(("frag%d.size" % i, fbase + (i // 512) * (META + 2) + 2 + (i % 512) * 16 + 8, 4))
        tail += b
    export_table = 0xFFFFFFFFFFFFFFFF
    if export:
        bynum = {n["_ino"]: refs[id(n)] for n in order}
        raw = b"".join(struct.pack("<Q", bynum.get(i, 0)) for i in range(1, inode_count + 1))
        b, export_table = lookup_table(raw, 8)
        tail += b
    raw = b"".join(struct.pack("<I", v & 0xFFFFFFFF) for v in ids)
    ibase = pos
    b, id_table = lookup_table(raw, 4)
    layout.append(("idtable.loc0", id_table, 8))
    tail += b
    xattr_table = 0xFFFFFFFFFFFFFFFF
    if xsets or xattr_ov:
        kv = MetaStream()
        idents = []
        seen_vals = {}
        for kvl in xsets:
            start = kv.pos()
            for k, v in kvl:
                pid = {b"user.": 0, b"trusted.": 1, b"security.": 2}
                pf = next(p for p in pid if k.startswith(p))
                name = k[len(pf):]
                if v in seen_vals and len(v) > 16:
                    r = seen_vals[v]
                    kv.write(struct.pack("<HH", pid[pf] | 0x100, len(name)) + name + struct.pack("<IQ", 8, r))
                else:
                    kv.write(struct.pack("<HH", pid[pf], len(name)) + name)
                    seen_vals[v] = kv.ref()
                    kv.write(struct.pack("<I", len(v)) + v)
            idents.append((kv.ref(start), len(kvl), kv.pos() - start))
        if xattr_ov and "idents" in xattr_ov:
            idents = xattr_ov["idents"]
        kvb = kv.serialize()
        kv_start = pos
        tail += kvb
        pos += len(kvb)
        raw = b"".join(struct.pack("<QII", r, c, s) for r, c, s in idents)
        xb = pos
        blocks = bytearray()
        locs = []
        for i in range(0, len(raw), META):
            blk = raw[i:i + META]
            locs.append(pos + len(blocks))
            blocks += struct.pack("<H", 0x8000 | len(blk)) + blk
        tail += blocks
        pos += len(blocks)
        xattr_table = pos
        hdr = struct.pack("<QII", (xattr_ov or {}).get("kv_start", kv_start), (xattr_ov or {}).get("count", len(idents)), 0) + b"".join(struct.pack("<Q", l) for l in locs)
        layout += [("xattr.kv_start", pos, 8), ("xattr.count", pos + 8, 4)]
        for i in range(len(idents)):
            layout += [("xattr.id%d.ref" % i, xb + 2 + i * 16, 8), ("xattr.id%d.count" % i, xb + 2 + i * 16 + 8, 4), ("xattr.id%d.size" % i, xb + 2 + i * 16 + 12, 4)]
        tail += hdr
        pos += len(hdr)
    bytes_used = pos
    fl = flags
    if fl is None:
        fl = 0x0001 | 0x0800 | 0x0100 | 0x0040      # uncompressed inodes / ids / xattrs, duplicates
        if not data_comp:
            fl |= 0x0002 | 0x0008
        if not frags:
            fl |= 0x0010
        if export:
            fl |= 0x0080
        if xattr_table == 0xFFFFFFFFFFFFFFFF:
            fl |= 0x0200
    sb = dict(magic=0x73717368, inode_count=inode_count, mtime=mtime, block_size=B, frag_count=len(frags), comp=comp_id, block_log=B.bit_length() - 1,
              flags=fl, id_count=len(ids), vmaj=4, vmin=0, root=root_ref, bytes_used=bytes_used, id_table=id_table, xattr_table=xattr_table,
              inode_table=inode_table_start, dir_table=dir_table_start, frag_table=frag_table, export_table=export_table)
    sb.update(sb_ov or {})
    sbb = struct.pack("<IIIIIHHHHHHQQQQQQQQ", sb["magic"], sb["inode_count"] & M32, sb["mtime"] & M32, sb["block_size"] & M32, sb["frag_count"] & M32, sb["comp"],
                      sb["block_log"], sb["flags"], sb["id_count"] & 0xFFFF, sb["vmaj"], sb["vmin"], sb["root"] & M64, sb["bytes_used"] & M64, sb["id_table"] & M64,
                      sb["xattr_table"] & M64, sb["inode_table"] & M64, sb["dir_table"] & M64, sb["frag_table"] & M64, sb["export_table"] & M64)
    names = ["magic", "inode_count", "mtime", "block_size", "frag_count", "comp", "block_log", "flags", "id_count", "vmaj", "vmin", "root", "bytes_used", "id_table",
             "xattr_table", "inode_table", "dir_table", "frag_table", "export_table"]
    widths = [4, 4, 4, 4, 4, 2, 2, 2, 2, 2, 2, 8, 8, 8, 8, 8, 8, 8, 8]
    o = 0
    for nme, w in zip(names, widths):
        layout.append(("sb." + nme, o, w))
        o += w
    img = sbb + bytes(data) + itab + dtab + bytes(tail)
    if pad:
        img += b"\0" * ((-len(img)) % pad)
    # resolve metadata-relative layout entries
    for name, (tab, p), w in lay:
        ms_base = inode_table_start if tab == "i" else dir_table_start
        off = ms_base + (p // META) * (META + 2) + 2 + (p % META)
        if (p % META) + w <= META:
            layout.append((name, off, w))
    return img, layout


M32 = 0xFFFFFFFF
M64 = 0xFFFFFFFFFFFFFFFF


def simple_tree():
    """a small benign tree exercising every inode type, fragments, xattrs, an extended directory with index"""
    files = [dict(type="file", name=b"f%02d" % i, data=(b"%d" % i) * (50 * i), frag=True, mode=0o644, uid=i % 3, gid=7) for i in range(1, 6)]
    big = dict(type="file", name=b"big", data=bytes(range(256)) * 40 + b"tail", frag=True, xattrs={b"user.k": b"v", b"trusted.long": b"L" * 40})
    sparse = dict(type="file", name=b"sparse", data=b"\0" * 8192 + b"x" * 100, frag=False)
    # shorter than a block but stored as a data block of its own (what -T / dont_fragment produce)
    smallblk = dict(type="file", name=b"smallblk", data=b"short file in a block of its own " * 9, frag=False)
    sub = dict(type="dir", name=b"sub", children=[dict(type="slink", name=b"lnk", target=b"../big"), dict(type="chr", name=b"c", devno=0x0105),
                                                 dict(type="blk", name=b"b", devno=0x0800), dict(type="fifo", name=b"p"), dict(type="sock", name=b"s"),
                                                 dict(type="file", name=b"hl", data=b"hardlinked", id="hl", nlink=2, frag=True)],
               xattrs={b"security.x": b"L" * 40}, index=True, ext=True)
    # (first inode of the table: a length field enlarged by a few hundred bytes still lies inside the table)
    first = dict(type="slink", name=b"aaa_first", target=b"sub/lnk")
    root = dict(type="dir", name=b"", children=[first] + files + [big, sparse, smallblk, sub, dict(type="dir", name=b"empty", children=[]),
                                                       dict(name=b"hl2", link_to="hl", type="file")], mode=0o755)
    return root
