#!/usr/local/bin/python3-vt
"""Regenerates /verif/MANIFEST.json from the table below (keeps it schema-valid)."""
import json, os, sys

VERIF = os.path.dirname(os.path.dirname(os.path.abspath(__file__)))

# id -> (engine, level category, technique, level text, level note, design ref)
CHECKS = {}


def reg(pid, engine, cat, technique, text, note, ref):
    CHECKS[pid] = dict(engine=engine, cat=cat, technique=technique, text=text, note=note, ref=ref)


reg("C18", "exhaustive enumeration + rapidcheck (src/c18.cc)", "exploration",
    "exhaustive small-alphabet enumeration + random strings against an independent specification",
    "All 12.2 M strings over {'/','.','a','b',0xC3} up to length 10 (thorough: 12, 305 M) and random strings up to 64 KiB are "
    "canonicalised by the real function (ASan build of the current tree) and compared with an independent split/drop/join "
    "specification: refusal iff a '..' component, exact result, no growth, idempotence, shape, guard bytes; "
    "is_filename_sane compared with its specification on every string. Complete for the enumerated space, sampled beyond. A second layer "
    "(Hypothesis) checks the funnel: tar member names and hard link targets, --exclude-dir, pack file paths, link targets and glob targets, "
    "sort file names (also inside quotation marks), tar2sqfs --root-becomes with names and link targets below the new root, rdsquashfs path arguments (-c -l -s -x), sqfs2tar -r/-d - any spelling must behave like the canonical one, '..' must be refused.",
    "Trusts the 25-line specification in src/c18.cc, clang ASan/UBSan, and that the five-letter alphabet covers the "
    "character classes the code distinguishes ('/', '.', other).", "DESIGN.md 4/C18")

reg("C01", "Hypothesis -> gensquashfs (asan) -> independent parser + rdsquashfs read-back", "exploration",
    "property-based round trip against a reference model (independent SquashFS parser) with directed boundary profiles",
    "Generated trees x option sets x input modes are packed by the real gensquashfs (ASan/UBSan build of the current tree); the image "
    "is parsed by an independent Python reader written from doc/format.adoc and compared field by field with the reference model "
    "of gensquashfs.1 (paths, types, modes, owners, times, targets, device numbers, hard-link partition, xattrs, file bytes), then "
    "read back through rdsquashfs (unpack+lstat walk, cat, stat, xattr, list, describe). Unrepresentable inputs must be refused. "
    "Sampled, not exhaustive; boundaries named in the property are hit by directed profiles every run.",
    "Trusts lib/sqfsimg.py (parser), lib/treemodel.py (reference model from the man page), Python zlib/lzma and libzstd/liblz4 "
    "decompressors, the host file system (ext4, root) for materialising trees.", "DESIGN.md 4/C01")
reg("C03", "Hypothesis -> gensquashfs/tar2sqfs (asan) -> independent validator", "exploration",
    "validity predicate (named on-disk invariants) evaluated by an independent parser over generated images",
    "Every image produced for generated inputs (C01-style trees incl. directory/metadata-block boundary profiles, short incompressible "
    "data with every compressor, tar inputs) is parsed independently and checked against the named invariants S1-S4, M1, T1 (kernel "
    "table layout checks), D1, I1-I5, R1-R4, X1, E1 of DESIGN.md. Any violated invariant is reported by name.",
    "Trusts lib/sqfsimg.py and the invariant list (doc/format.adoc + Linux fs/squashfs table sanity checks).", "DESIGN.md 4/C03")

reg("C04", "Hypothesis -> tar2sqfs/sqfs2tar (asan) -> independent parser, Python tarfile, GNU tar", "exploration",
    "property-based round trips: independent tar writer -> tar2sqfs -> independent parser == reference semantics; sqfs2tar -> two independent tar readers; byte-exact fix point",
    "Archives of every documented dialect are written by an independent generator (cross-checked per case by Python tarfile), converted by the "
    "real tar2sqfs and compared through the independent SquashFS parser with the reference semantics of tar2sqfs.1; sqfs2tar output is read by "
    "Python tarfile (headers of hard link members included) and extracted by GNU tar as root and compared with the image; the "
    "tar->image->tar->image fix point is compared byte for byte. Images written by gensquashfs (sockets, xattrs on every type) are converted "
    "too, and sparse members with data beyond 8 GiB (old GNU base-256 map fields, PAX 0.1 / 1.0) are read back island by island.",
    "Trusts lib/tarimg.py (writer + Appendix B semantics), lib/sqfsimg.py, Python tarfile and GNU tar 1.34 as readers. One known finding "
    "(xattr order flips per trip) is excluded by signature and reported as KNOWN-FINDING.", "DESIGN.md 4/C04")

reg("C15", "Hypothesis -> reference compressors -> tar2sqfs / sqfs2tar -c (asan)", "exploration",
    "differential/metamorphic: image from compressed stream == image from plain stream; reference decompressor(sqfs2tar -c) == plain output; damaged streams refused",
    "Generated archives are compressed by reference codecs (Python zlib/lzma/bz2, libzstd with checksum) as single and concatenated members, "
    "fed through pipes in chunk sizes down to one byte, with trailing padding/garbage and with truncation, bit flips, zero runs and "
    "duplicated ranges; tar2sqfs must give the image of the plain archive, or refuse damaged input (never a different image with exit 0, never "
    "a hang within 20-40 s); a proper prefix that the reference decompressor refuses as incomplete must be refused too. Profiles place the "
    "end-of-archive marker at the end of a 256 KiB decoder window and start plain V7 archives with names that look like a compressor magic. "
    "sqfs2tar -c X is expanded by the reference decompressor and compared with the plain output. Every truncation "
    "offset of one small archive per codec is enumerated.",
    "Trusts the reference codecs; hang detection is a wall-clock bound; a damaged stream that the reference decompressor still expands to the "
    "same bytes counts as undamaged.", "DESIGN.md 4/C15")

reg("C16", "Hypothesis -> gensquashfs --pack-dir -> rdsquashfs -d/-u -> gensquashfs -F (asan) -> independent parser", "exploration",
    "round trip (describe -> unpack -> repack) compared through an independent parser",
    "Trees whose names, symlink targets and unpack roots carry every quoting-relevant byte (space, tab, CR, VT, FF, quote, backslash, '#', leading '-', "
    "high bytes) in first/middle/last position, with a root directory that has permissions and an owner of its own, are packed without the pack-file parser, described (with and without --unpack-root, absolute, "
    "relative, and relative climbing out through '..'), unpacked and re-packed from the listing; the independent parser must see the same paths, types, modes, owners, targets, "
    "device numbers and contents.", "Trusts lib/sqfsimg.py; newline is excluded as the statement says; hard-link groups and time stamps are not compared.",
    "DESIGN.md 4/C16")

reg("C17", "Hypothesis -> gensquashfs -S (asan) -> layout decoded by the independent parser", "exploration",
    "reference model of pack order and per-file flags compared with the on-disk layout decoded by an independent parser",
    "Generated trees (unique-content files of every size class, zero blocks, compressible data, twins) and sort files (ties, negatives, literal/"
    "glob/glob_no_path, quoted names with escapes, overlaps, every flag subset, comments, no-match lines) with -T/-e/-j/-B: a reference model "
    "computes pack order and effective flags; from the parsed image data offsets and fragment positions must be monotone in pack order, each "
    "flag must have exactly its documented effect and unlisted files none, the tree must read back unchanged and the invariants hold.",
    "Trusts lib/sqfsimg.py, the model in checks/c17.py (from gensquashfs.1) and its small fnmatch; twins are not judged for dont_compress "
    "(dedup vs. directive precedence is undocumented); the 'align' flag is documented but unimplemented and left out.", "DESIGN.md 4/C17")

reg("C12", "Hypothesis scenarios x LD_PRELOAD I/O shim (short counts, EINTR, pipe chunking)", "fault_enumeration",
    "metamorphic: output digest and exit status under injected short transfers / EINTR / pipe chunkings equal the undisturbed run",
    "Seven tool invocations over generated inputs run under src/io_shim.c: seeded random sequences of full/short/EINTR outcomes on every "
    "read, write, pread and pwrite, every single data call k short by one byte, halved or interrupted (all k for small inputs), stdin fed in "
    "chunks of 1..4096 bytes and stdout drained slowly. Image / archive / stdout / unpacked-tree digest and exit status must not change.",
    "Faults are injected at the libc wrappers of the tool process; stdio-internal writes and kernel behaviour are out of reach; plain build.",
    "DESIGN.md 4/C12")
reg("C13", "Hypothesis scenarios x exhaustive single-fault positions (LD_PRELOAD shim, --wrap allocator)", "fault_enumeration",
    "fault injection at every system call position and every project allocation, with a fail-stop oracle",
    "For each generated small input and each of gensquashfs (dir / pack file), tar2sqfs, sqfs2tar, rdsquashfs -c/-u: a counting run, then every "
    "single fault position: k-th write/read/open/ftruncate/fsync/lseek failing with ENOSPC/EIO (also EINTR first), k-th project allocation "
    "returning NULL (ASan build with --wrap). No signal/sanitizer report/hang; exit != 0 => diagnostic and, for packers, no output file; "
    "exit 0 => output identical to the fault-free run. Archives cut inside members (also members tar2sqfs skips) must be refused; the printing "
    "tools run with /dev/full as standard output; directed inputs (1.1 MB incompressible through sqfs2tar -c, xattr tables of references) run "
    "with every fault position on each invocation.",
    "Single faults only; injected at libc wrappers / allocation call sites of project objects; sanitizer runtime symbolizer disabled during "
    "injection (its own pipe I/O would be hit); premature EOF is not a fault (shorter inputs are legitimate).", "DESIGN.md 4/C13")

reg("C11", "Hypothesis trees x readdir permutation shim (LD_PRELOAD) -> gensquashfs", "exploration",
    "metamorphic: image bytes identical under every injected permutation of readdir() results",
    "Materialised trees (with multiply-linked files) are packed by gensquashfs --pack-dir / a glob line while src/readdir_shim.c returns each "
    "directory's entries reversed, sorted and in seeded random orders; sha256(image) must be identical. A difference confined to inode "
    "numbering of multiply-linked files is the recorded known finding; anything else is a violation. Glob lines carry restrictive -type lists, "
    "-name/-path filters and explicit link lines onto scanned names; one directory may pretend to be a mount point (with -o).",
    "Order is permuted at libc readdir(); plain build.", "DESIGN.md 4/C11")
reg("C14", "Hypothesis inputs x SIGKILL before every output-file write (LD_PRELOAD shim) -> readers", "fault_enumeration",
    "crash-point enumeration: every prefix of the output write sequence is offered to all readers and an independent parser",
    "gensquashfs / tar2sqfs are killed immediately before the k-th write/pwrite/ftruncate on the output file for every k (fresh file, -f "
    "over the finished image of the same input, -f over a valid image of another tree); rdsquashfs -l/-d, sqfs2tar (ASan) and the independent parser must either all reject the leftover file or all read "
    "exactly the complete image.", "Models process death with ordered page cache, not power loss; single kill per run.", "DESIGN.md 4/C14")

reg("C02", "Hypothesis inputs x (-j, -Q, -X, schedule perturbation shim, environment) vs serial build; ThreadSanitizer sample; block processor under the controlled scheduler", "exploration",
    "differential against the NO_THREAD_IMPL serial build + metamorphic over -j/-Q/schedule perturbation/environment; TSan on a sample; "
    "schedule enumeration (0 and 1 preemptions) of the block processor on the controlled scheduler with a read-back + digest oracle",
    "Inputs with many data and fragment blocks are packed by gensquashfs / tar2sqfs with -j 1..64 and default, -Q 1..10^4, seeded yields and "
    "sleeps around every mutex/condvar operation of the worker pool (LD_PRELOAD), different TZ/locale/umask/HOME/cwd and a fake wall clock (half of the pack-file and tar inputs put files below directories the input never declares); "
    "every image must equal the serial build's image byte for byte; one ThreadSanitizer run per case must be free of race reports.",
    "Real-thread perturbation samples interleavings; the controlled scheduler enumerates them for small block processor programs at the "
    "granularity of the pool's mutex/condvar operations. The command line is an input, and so is SOURCE_DATE_EPOCH unless --defaults mtime= is "
    "given (then it is varied like the rest of the environment); a third of the pack-file inputs carry per-file flags from a sort file.", "DESIGN.md 4/C02, 8.2")
reg("C08", "Hypothesis content multisets -> gensquashfs built with a 2..8 bit checksum -> independent parser", "exploration",
    "property-based read-back under forced checksum collisions (link-time weakened hash), both directions of the dedup property",
    "The block checksum is cut to 2-8 bits at link time so that many distinct blocks and tails of equal size collide; generated multisets of "
    "contents (equal-length tails, incompressible blocks, duplicates, shared leading blocks/tails, zero blocks) are packed and every file must "
    "read back byte-exact while truly identical contents still share storage. A reference xxh32 in Python counts the collisions actually "
    "forced per case.", "Only the checksum function is replaced; hash-table behaviour with a 32 bit hash is covered by C01.", "DESIGN.md 4/C08")

reg("C05", "libFuzzer (ASan+UBSan) on the reader API + Hypothesis structure-aware field mutation through the CLI tools", "exploration",
    "coverage-guided fuzzing with bounded-work harness + structure-aware mutation of an independently written image",
    "src/fz_image.c drives super block, compressor, id/fragment/xattr tables, the tree reader, data reader (stream, positional, per block, "
    "fragment) and the sqfs2tar iterator stack + tar header writer over the fuzzed bytes, seeded with Python- and tool-written images of every "
    "compressor and from an empty corpus; a second layer sets 0-3 named on-disk fields of a Python-written image to boundary values or builds "
    "directory loops and runs rdsquashfs -l/-d/-s/-x/-c/-u, sqfs2tar and sqfsdiff (ASan) under a time limit. No sanitizer report, no signal, "
    "exit status 0/1 (sqfsdiff 0/1/2), termination. Every (inode field x tool) and (super block flag x tool) pair is enumerated on each run, "
    "and valid images of extreme shape (directory chains of 400-60000 levels written by gensquashfs, directory DAGs) go through every tool.",
    "One known finding (a directory referenced by several entries is expanded once per reference: exponential work) is excluded by signature and "
    "reported as KNOWN-FINDING. Fuzz campaigns are approximately reproducible; artifacts are re-run stand-alone before they count; work proportional to sizes an image "
    "merely claims is bounded inside the harness and skipped in the CLI layer.", "DESIGN.md 4/C05")

reg("C07", "libFuzzer (ASan+UBSan) on tar iterator/fstree and the pack/sort/xattr parsers + Hypothesis and exhaustive CLI cases", "exploration",
    "coverage-guided fuzzing with in-target oracles + generated/enumerated malformed inputs through the CLI with a fail-stop/valid-image oracle",
    "src/fz_packer.c feeds fuzzed bytes through tar_open_stream (codec detection), the process_tarball loop, fstree and hard-link post-processing, and "
    "through the pack file, sort file and xattr map file parsers; the CLI layer runs tar2sqfs/gensquashfs (ASan) on truncated and damaged archives of "
    "every dialect and codec, on every hard-link graph over three names (and sampled over four) in tar and pack-file form, and on mutated text files. "
    "PAX headers are also generated as sequences of the records the reader knows (any order, repeats, odd values) and old GNU sparse maps as "
    "generated number lists, each followed by two ordinary members that must be in the image on exit 0; option sets x well-formed archives / pack, "
    "sort and xattr files are enumerated as a matrix. Entries over nested names with generated types and order: a name asked for as a non-directory "
    "and as the parent of other entries must be refused, accepted inputs keep every entry with its type. "
    "Terminates; no sanitizer report; exit 0 => image satisfies the C03 invariants and the predicted link groups; exit 1 => diagnostic, no output file.",
    "What a malformed sparse map delivers is unspecified and not judged; hang detection is a 30 s limit.", "DESIGN.md 4/C07")

reg("C06", "Hypothesis hostile images (independent writer) -> rdsquashfs --unpack-path as root in a jail with sentinels", "exploration",
    "generated adversarial images + before/after snapshot invariant over everything outside the unpack root",
    "Images whose directory tables carry arbitrary byte strings ('.', '..', 'a/b', '/abs', '../x', NUL, long names), duplicate names pairing a "
    "symlink with a directory or file, unsorted listings and symlinks aimed at sentinels are unpacked by rdsquashfs (ASan, as root) with every "
    "option subset, unpack path and unpack-root style inside a jail; a snapshot (type, mode, owner, inode, links, mtime, size, content, target, "
    "xattrs, listings) of the jail minus R must be unchanged; on exit 0 the sane unique entries must exist with the right type and contents, at "
    "every level. In a third of the cases a second generated image (directories where the first had symlinks) is then unpacked into the same "
    "root and the snapshot must still be unchanged.",
    "Trusts lib/sqfswrite.py; the jail stands in for 'the rest of the file system' (symlink targets point at it absolutely and relatively).",
    "DESIGN.md 4/C06")

reg("C09", "controlled scheduler (src/vsched.cc) under the unmodified threadpool.c: complete / preemption-bounded DFS + random schedules", "exploration",
    "systematic schedule enumeration (stateless DFS over choice sequences, preemption bounding) and random schedules with history invariants",
    "threadpool.c is compiled with its pthread calls routed to a scheduler that runs one logical thread at a time; client programs over "
    "submit/dequeue/get_status with every failure position are executed under all schedules for 1 worker with <=2 items (thorough <=3, and 2 "
    "workers/2 items), under all schedules with <=2 (thorough 3) preemptions for 2-3 workers and 2-3 items, and under random schedules with "
    "spurious wake-ups up to 3 workers / 5 items. Invariants: exactly-once on one worker, exclusive per-worker context, FIFO exactly-once "
    "hand-back, failure reported instead of blocking, destroy joins; deadlock = no runnable thread. The block processor is driven on the same "
    "controlled pool (1-3 workers, backlog 2-8, preemption-bounded DFS): every call returns, every file reads back, and a compressor that fails in "
    "a worker on the first / last block or the tail of any one file must make some call of the submitter fail. Model-based sequences "
    "(src/c09_model.c, ASan): generated submit/dequeue/get_status programs over 1-20 items with partial drains and failing items run on the "
    "serial reference pool and the pthread pool (1-4 workers) and are compared call by call with a FIFO model; failures shrink by deleting operations; a LeakSanitizer report at exit (a work item nobody owns) "
    "is traced to one program by bisection.",
    "Sequentially consistent interleavings at mutex/condvar granularity; block processor programs are bounded by an execution cap per "
    "configuration, not enumerated completely.", "DESIGN.md 4/C09, 8.3")

reg("C10", "Hypothesis operation histories -> src/c10_hist.c (ASan): long-lived readers vs fresh readers after every step", "exploration",
    "stateful property-based testing: differential between a long-lived reader set and freshly created readers over generated call histories",
    "Histories of 3-40 reader API calls (14 kinds, valid arguments harvested by the independent parser, ~10% invalid ones) run on one long-lived "
    "set of dir/data/xattr/meta readers; after every step the same call runs on a fresh set and (status, digest) must match. Images: tool-written "
    "for every compressor (fragments, sparse, multi-block, out-of-line xattrs, 600 entry directory, export table), Python-written, and "
    "field-damaged variants, and directed ones (two files stored once with the second inode's block word altered, an unloadable fragment "
    "block, NUL bytes inside names, destroyed compressed bytes). Stream, positional and per-block file access must agree on readable files; a "
    "stream read repeated after a failure must not deliver data; paths are passed in allocations of their exact size. The low-level readdir "
    "interface runs on one cursor object per reader set that is re-initialised after partial listings and continued after other operations, "
    "and on two cursors that share one meta reader and are read alternately (fresh set: one after the other).",
    "Directory readers use flags 0 (DOT_ENTRIES caching is documented as history dependent); digests are FNV-1a over payloads.", "DESIGN.md 4/C10")

reg("C19", "Hypothesis programs -> src/c19_copy.c (ASan): copy vs twin with the same history, both release orders", "exploration",
    "stateful property-based testing of sqfs_copy(): equivalence with a twin object, independence from the original, release in both orders under ASan",
    "After a generated pre-history every object of a reader set (file, compressor, id table, dir/data/xattr/meta reader) is duplicated with sqfs_copy(); "
    "interleaved operations on original and copy follow, the copy's answers are compared with a twin built by replaying the pre-history on fresh "
    "objects, either object is released at a random point and the survivor keeps being used. Compressor copies (all ids, both directions) and xattr "
    "writer copies (sets before / only on the original / after; flushed bytes compared with a twin writer) are covered by dedicated operations, "
    "as are options read from an image before a compressor is copied and copies that fail at their k-th allocation (reader set, xattr writer) "
    "or for lack of file descriptors: the original is then compared with a twin. Cursors that are continued after the copy (low-level readdir "
    "cursor, sequential meta reader reads without a seek) must stand where the original stood, and releasing each object of the copied set must "
    "run its destroy hook exactly once.",
    "Images from the C10 pool; leak detection is off (the property speaks about crashes and state, leaks of the harness itself would be noise).",
    "DESIGN.md 4/C19")

NOT_YET = {}

ALL = ["C%02d" % i for i in range(1, 20)]


def main():
    checks = []
    for pid in ALL:
        if pid not in CHECKS:
            continue
        c = CHECKS[pid]
        checks.append({
            "property_id": pid,
            "quick_cmd": "bin/check %s --tier quick" % pid,
            "thorough_cmd": "bin/check %s --tier thorough" % pid,
            "evidence_file": "/verif/evidence/%s.json" % pid,
            "replay_cmd_template": "bin/check %s --replay {path}" % pid,
            "engine": c["engine"],
            "level_claimed": {"category": c["cat"], "text": c["text"], "design_ref": c["ref"]},
            "level_note": c["note"],
            "technique": c["technique"],
        })
    na = [{"property_id": p, "reason": NOT_YET.get(p, "check under construction in this session; not claimed until it runs clean on the unchanged tree")}
          for p in ALL if p not in CHECKS]
    m = {
        "version": 1,
        "setup_cmd": "python3-vt lib/vbuild.py plain asan",
        "hooks": {
            "guard": "SQFS_TOOLS_NG_VERIF",
            "enable": "no hook is needed in /repo: checks compile the current working tree themselves (lib/vbuild.py) into "
                      "/verif/build/<variant> with sanitizers, -include shims, --wrap and LD_PRELOAD shims",
            "baseline_off_cmd": "make -C /repo -j8 check",
            "source_commits": [],
            "add_only": True,
        },
        "engines": [
            {"name": "hypothesis-cli", "path": "lib/vcommon.py", "kind_free_text": "Hypothesis 6.168 driving sanitizer builds of the CLI tools, 16 shards"},
            {"name": "rapidcheck", "path": "src/", "kind_free_text": "C++ rapidcheck / exhaustive harnesses linked against the current tree's objects"},
            {"name": "libfuzzer", "path": "src/", "kind_free_text": "libFuzzer targets with in-target semantic oracles"},
        ],
        "checks": checks,
        "not_applicable": na,
        "notes": "All checks: bin/check <ID> --tier quick|thorough; VERIF_SEED selects the generator seed. See DESIGN.md.",
    }
    with open(os.path.join(VERIF, "MANIFEST.json"), "w") as fh:
        json.dump(m, fh, indent=1)
    import jsonschema
    jsonschema.validate(m, json.load(open("/root/.vp/MANIFEST.schema.json")))
    print("MANIFEST.json written: %d checks, %d not_applicable" % (len(checks), len(na)))


if __name__ == "__main__":
    main()
