"""C04 - tar <-> SquashFS conversion.

(1) generated archives (lib/tarimg.py: v7/ustar/pre-POSIX, GNU L/K, PAX, sparse old/0.0/0.1/1.0,
    base-256, SCHILY/LIBARCHIVE xattrs, hard links, implicit parents, './' '/' prefixes) -> tar2sqfs ->
    independent parser == reference semantics (DESIGN Appendix B);
(2) sqfs2tar on the image -> Python tarfile and GNU tar (extraction as root) read the same tree;
(3) img1 -> sqfs2tar -> tar2sqfs -> img2 (semantically equal) -> sqfs2tar -> tar2sqfs -> img3 == img2 bytes.
"""
import os, re, stat, hashlib, io, subprocess
from hypothesis import strategies as st
import vcommon, vbuild, treemodel, tarimg, packlib, sqfsimg
from vcommon import Violation, Inconclusive, CaseInfo, Result, Scratch

PROP = "C04"


@st.composite
def cases(draw, tier="quick"):
    B = draw(st.sampled_from([4096, 4096, 4096, 8192, 131072]))
    if draw(st.sampled_from([False, False, False, True])):
        # an image that did not come from a tar archive: every inode type (sockets), xattrs on any of them
        nodes = draw(treemodel.trees(mode="file", max_nodes=12, want_special=True, allow_newline=False, name_max=120))
        for n in nodes:
            if n["type"] in ("sock", "fifo", "chr", "blk", "slink") and not n.get("xattrs") and draw(st.sampled_from([False, True])):
                n["xattrs"] = {b"user.on_" + n["type"].encode(): b"v" * draw(st.integers(1, 20))}
        xf = [(n["path"], n["xattrs"]) for n in nodes if n.get("xattrs") and n["type"] != "hlink" and b"\r" not in n["path"]
              and n["path"] == n["path"].strip() and not n["path"].startswith(b"#")]
        for n in nodes:
            if n.get("xattrs") and (n["path"], n["xattrs"]) not in xf:
                n["xattrs"] = {}
        go = dict(comp="gzip", X=None, B=4096, T=False, e=False, j=1, Q=None, devblk=None, defaults={}, source_date_epoch=None, xattr_styles=[0],
                  quote_all=False, loc_style=0, packdir_mode=1)
        s = dict(root_becomes=draw(st.sampled_from([None, None, b".", b"rootdir"])), no_xattr=draw(st.sampled_from([False, False, True])),
                 no_hard_links=draw(st.sampled_from([False, False, True])), no_skip=False)
        return dict(gen=True, nodes=nodes, gopts=go, xattr_file=xf or None, s2t=s)
    ar = draw(tarimg.archives(B=B))
    o = dict(comp=draw(st.sampled_from(["gzip", "xz", "lz4", "zstd", "lzma"])), B=B,
             no_keep_time=draw(st.sampled_from([False, False, True])), no_xattr=draw(st.sampled_from([False, False, True])),
             no_skip=draw(st.sampled_from([False, False, False, True])), T=draw(st.booleans()), e=draw(st.booleans()),
             j=draw(st.sampled_from([None, 1, 3])), defaults={}, source_date_epoch=draw(st.sampled_from([None, None, 1600000000])))
    if draw(st.integers(0, 3)) == 0:
        o["defaults"] = dict(uid=draw(st.integers(0, 70000)), gid=draw(st.integers(0, 70000)), mode=draw(treemodel.modes()),
                             mtime=draw(st.integers(0, 0xFFFFFFFF)))
    # --root-becomes: pick an existing directory (or a non-existing name)
    dirs = [tarimg.canon(e["name"]) for e in ar["entries"] if e["type"] == "dir" and tarimg.canon(e["name"])]
    if draw(st.integers(0, 4)) == 0:
        o["root_becomes"] = draw(st.sampled_from(dirs)) if dirs and draw(st.integers(0, 5)) else b"nonexistent"
        o["no_symlink_retarget"] = draw(st.booleans())
        # make some link targets point below the new root
        rb = o["root_becomes"]
        tgts = [rb + b"/sub/x", b"/" + rb + b"/y", b"./" + rb + b"//z", rb, rb + b"x/no", b"/abs/target", b"./rel//x/", b"../up", b"plain", b"a/./b"]
        for e in ar["entries"]:
            if e["type"] == "slink" and draw(st.integers(0, 2)) == 0:
                e["linkname"] = draw(st.sampled_from(tgts))
        # symbolic links below the new root, pointing inside and outside of it
        if rb in dirs:
            for i in range(draw(st.integers(0, 3))):
                ar["entries"].append(dict(name=rb + b"/zz-lnk%d" % i, type="slink", mode=0o777, uid=0, gid=0, mtime=1, xattrs={},
                                          linkname=draw(st.sampled_from(tgts)), enc=dict(fmt="ustar", longname="gnu", num="octal", ostyle=0)))
    s = dict(root_becomes=draw(st.sampled_from([None, None, b".", b"rootdir", b"a/b"])), no_xattr=draw(st.sampled_from([False, False, True])),
             no_hard_links=draw(st.sampled_from([False, False, True])), no_skip=False)
    # sqfs2tar --subdir / --keep-as-dir: select one or two directories of the image; siblings whose names are string prefixes /
    # extensions of a selected one ("lib" next to "lib64") are added so that matching on component boundaries matters
    if dirs and "root_becomes" not in o and draw(st.sampled_from([False, False, False, True])):
        picked = draw(st.lists(st.sampled_from(dirs), min_size=1, max_size=2, unique=True))
        for d in picked:
            base = d.rsplit(b"/", 1)[-1]
            par = d[:len(d) - len(base)]
            for nm2, typ in ((base[:-1], "file"), (base + b"x", "dir"), (base[:1], "slink")):
                pth = par + nm2
                if nm2 and all(tarimg.canon(e["name"]) != pth for e in ar["entries"]) and len(base) < 90:
                    ent = dict(name=pth, type=typ, mode=0o644 if typ == "file" else 0o755, uid=0, gid=0, mtime=7, xattrs={},
                               enc=dict(fmt="ustar", longname="gnu", num="octal", ostyle=0))
                    if typ == "file":
                        ent["data"] = b"SECRET outside the selected directory"
                    if typ == "slink":
                        ent["linkname"] = b"elsewhere"
                    ar["entries"].append(ent)
        s["subdirs"] = [draw(st.sampled_from([d, d + b"/", b"/" + d, b"./" + d])) for d in picked]
        s["subdirs_canon"] = picked
        s["keep_as_dir"] = draw(st.booleans())
        s["no_hard_links"] = True      # a link whose target lies outside the selection has no defined outcome
    return dict(archive=ar, opts=o, s2t=s)


def t2s_cmd(o, out):
    a = ["-q", "-c", o["comp"], "-b", str(o["B"])]
    if o.get("no_keep_time"):
        a.append("-k")
    if o.get("no_xattr"):
        a.append("-x")
    if o.get("no_skip"):
        a.append("-s")
    if o.get("T"):
        a.append("-T")
    if o.get("e"):
        a.append("-e")
    if o.get("j"):
        a += ["-j", str(o["j"])]
    d = o.get("defaults")
    if d:
        a += ["-d", "uid=%d,gid=%d,mode=0%o,mtime=%d" % (d["uid"], d["gid"], d["mode"], d["mtime"])]
    if o.get("root_becomes") is not None:
        a += ["-r", o["root_becomes"]]
        if o.get("no_symlink_retarget"):
            a.append("-S")
    return a + [out]


def run_t2s(data, o, out, variant="asan", timeout=60):
    env = {}
    if o.get("source_date_epoch") is not None:
        env["SOURCE_DATE_EPOCH"] = str(o["source_date_epoch"])
    return vcommon.run([vcommon.tool(variant, "tar2sqfs")] + t2s_cmd(o, out), stdin=data, env=env, timeout=timeout)


def s2t_cmd(s):
    a = []
    if s.get("root_becomes") is not None:
        a += ["-r", s["root_becomes"]]
    if s.get("no_xattr"):
        a.append("-X")
    if s.get("no_hard_links"):
        a.append("-L")
    if s.get("no_skip"):
        a.append("-s")
    for d in s.get("subdirs") or []:
        a += ["-d", d]
    if s.get("keep_as_dir"):
        a.append("-k")
    return a


def expected_tar_view(tree, s):
    """What an independent tar reader must see in sqfs2tar's output for image tree `tree` (parser format)."""
    res = {}
    pre = s.get("root_becomes")
    pre = tarimg.canon(pre) if pre is not None else None
    S = s.get("subdirs_canon") or []
    single = len(S) == 1 and not s.get("keep_as_dir")
    for p, n in tree.items():
        if p != b"" and S:
            # kept: a selected directory, what lies below it, and the directories leading to it
            if not any(p == d or d.startswith(p + b"/") or p.startswith(d + b"/") for d in S):
                continue
            if single:
                if len(p) <= len(S[0]):
                    continue
                p = p[len(S[0]) + 1:]
        if p == b"":
            if pre is None:
                continue
            name = pre
        else:
            name = (pre + b"/" + p) if pre else p
        if n["type"] == "sock":
            continue
        if name == b"":
            continue  # '-r .' : the root entry is './'
        res[name] = n
    if pre == b"" and b"" in tree:
        res[b""] = tree[b""]
    return res


def compare_tar_listing(lst, view, s, who):
    ev = {k: v for k, v in view.items() if k != b""}
    got = {k: v for k, v in lst.items() if k not in (b"", None)}
    if set(got) != set(ev):
        raise Violation("%s sees different members in sqfs2tar output: missing %r extra %r" % (
            who, sorted(set(ev) - set(got))[:3], sorted(set(got) - set(ev))[:3]), None, sig="s2t-members")
    for name, n in ev.items():
        g = got[name]
        gt = g["type"]
        if gt == "hlink":
            if s.get("no_hard_links"):
                raise Violation("%s: %r is a hard link although --no-hard-links was given" % (who, name), None, sig="s2t-hl")
            # the header of a link member describes the same inode: a reader that applies it (Python's extractall does: chmod, chown,
            # utime on the link) must end up with the attributes the image has
            for f in ("mode", "uid", "gid", "mtime"):
                if f == "mode" and n["type"] == "slink":
                    continue
                if g[f] != n[f]:
                    raise Violation("%s: hard link member %r carries %s=%s in its header, the inode in the image has %s" % (
                        who, name, f, ("%o" % g[f]) if f == "mode" else g[f], ("%o" % n[f]) if f == "mode" else n[f]), None, sig="s2t-hl-meta")
            continue
        if gt != n["type"]:
            raise Violation("%s: %r has type %s, image says %s" % (who, name, gt, n["type"]), None, sig="s2t-type")
        for f in ("mode", "uid", "gid", "mtime"):
            if f == "mode" and gt == "slink":
                continue
            if g[f] != n[f]:
                raise Violation("%s: %r %s=%s, image says %s" % (who, name, f, g[f], n[f]), None, sig="s2t-meta")
        if gt == "slink" and g["linkname"] != n["target"]:
            raise Violation("%s: %r -> %r, image says %r" % (who, name, g["linkname"], n["target"]), None, sig="s2t-target")
        if gt == "file" and (g["size"] != n["size"] or g["sha"] != n["sha"]):
            raise Violation("%s: %r content differs" % (who, name), None, sig="s2t-content")
        if "xattrs" in g and not s.get("no_xattr") and gt != "hlink":
            ex = n.get("xattrs") or {}
            # a value with an embedded NUL or newline cannot be told apart reliably through tarfile's text interface
            if all(b"\0" not in v and b"\n" not in v for v in list(ex.values()) + list(g["xattrs"].values())) and g["xattrs"] != ex:
                raise Violation("%s: %r carries xattrs %r, image says %r" % (who, name, sorted(g["xattrs"])[:4], sorted(ex)[:4]), None, sig="s2t-xattr")
        if gt in ("chr", "blk"):
            dn = (g["major"] << 8 & 0xFFF00) | (g["minor"] & 0xFF) | ((g["minor"] & 0xFFF00) << 12)
            if dn != n["devno"]:
                raise Violation("%s: %r device %d:%d, image says %d" % (who, name, g["major"], g["minor"], n["devno"]), None, sig="s2t-dev")


def gnu_tar_extract(tarbytes, dest):
    p = subprocess.run(["tar", "-xpf", "-", "--numeric-owner", "--xattrs", "--xattrs-include=*", "--delay-directory-restore", "-C", dest],
                       input=tarbytes, stdout=subprocess.PIPE, stderr=subprocess.PIPE)
    return p.returncode, p.stderr


def compare_gnu_tar(tarbytes, view, s, scratch):
    dest = os.path.join(scratch, "gx")
    os.mkdir(dest)
    rc, err = gnu_tar_extract(tarbytes, dest)
    if rc != 0:
        raise Violation("GNU tar cannot extract sqfs2tar output: %s" % err[-300:].decode(errors="replace"), None, sig="s2t-gnutar")
    destb = os.fsencode(dest)
    got = {}
    for dp, dn, fn in os.walk(destb):
        for name in dn + fn:
            p = os.path.join(dp, name)
            got[os.path.relpath(p, destb)] = os.lstat(p)
    ev = {k: v for k, v in view.items() if k != b""}
    pre = tarimg.canon(s["root_becomes"]) if s.get("root_becomes") is not None else None
    if pre:
        for p_ in treemodel.parents_of(pre):   # implicit parents of the '-r' prefix are created by the extractor
            if p_ not in ev:
                got.pop(p_, None)
    if set(got) != set(ev):
        raise Violation("GNU tar extracts different paths from sqfs2tar output: missing %r extra %r" % (
            sorted(set(ev) - set(got))[:3], sorted(set(got) - set(ev))[:3]), None, sig="s2t-gnutar-members")
    tmap = {"dir": stat.S_IFDIR, "file": stat.S_IFREG, "slink": stat.S_IFLNK, "chr": stat.S_IFCHR, "blk": stat.S_IFBLK, "fifo": stat.S_IFIFO}
    groups_img, groups_fs = {}, {}
    for name, n in ev.items():
        st_ = got[name]
        if stat.S_IFMT(st_.st_mode) != tmap[n["type"]]:
            raise Violation("GNU tar: %r extracted with type %o, image says %s" % (name, stat.S_IFMT(st_.st_mode), n["type"]), None, sig="s2t-gnutar")
        if n["type"] != "slink" and stat.S_IMODE(st_.st_mode) != n["mode"]:
            raise Violation("GNU tar: %r mode %o, image says %o" % (name, stat.S_IMODE(st_.st_mode), n["mode"]), None, sig="s2t-gnutar")
        if 0xFFFFFFFF not in (n["uid"], n["gid"]) and (st_.st_uid, st_.st_gid) != (n["uid"], n["gid"]):
            raise Violation("GNU tar: %r owner %d/%d, image says %d/%d" % (name, st_.st_uid, st_.st_gid, n["uid"], n["gid"]), None, sig="s2t-gnutar")
        if n["type"] not in ("slink",) and int(st_.st_mtime) != n["mtime"]:
            raise Violation("GNU tar: %r mtime %d, image says %d" % (name, st_.st_mtime, n["mtime"]), None, sig="s2t-gnutar")
        fp = os.path.join(destb, name)
        if n["type"] == "slink" and os.readlink(fp) != n["target"]:
            raise Violation("GNU tar: %r -> %r, image says %r" % (name, os.readlink(fp), n["target"]), None, sig="s2t-gnutar")
        if n["type"] == "file":
            with open(fp, "rb") as fh:
                if hashlib.sha256(fh.read()).hexdigest() != n["sha"]:
                    raise Violation("GNU tar: %r content differs" % name, None, sig="s2t-gnutar")
        if n["type"] != "dir":
            groups_img.setdefault(n["ino"], set()).add(name)
            groups_fs.setdefault(st_.st_ino, set()).add(name)
        if not s.get("no_xattr") and (n["type"] in ("file", "dir") or all(not k.startswith(b"user.") for k in n["xattrs"])):
            xs = {os.fsencode(k): os.getxattr(fp, k, follow_symlinks=False) for k in os.listxattr(fp, follow_symlinks=False)}
            if xs != n["xattrs"]:
                raise Violation("GNU tar: %r xattrs %r, image says %r" % (name, xs, n["xattrs"]), None, sig="s2t-gnutar-xattr")
    if not s.get("no_hard_links"):
        a = set(frozenset(x) for x in groups_img.values())
        b = set(frozenset(x) for x in groups_fs.values())
        if a != b:
            raise Violation("GNU tar: hard-link groups differ: image %r, extracted %r" % (sorted(map(sorted, a - b))[:2], sorted(map(sorted, b - a))[:2]),
                            None, sig="s2t-gnutar-hl")


def phase_s2t(img1, t1, s, sc, classes):
    """sqfs2tar on img1 (tree t1) with options s: framing, Python tarfile and GNU tar listings against the image; returns the archive"""
    # ---- (2) sqfs2tar
    s2t = vcommon.tool("asan", "sqfs2tar")
    r2 = vcommon.run([s2t] + s2t_cmd(s) + [img1], timeout=60)
    if r2.sanitizer() or r2.timeout:
        raise Violation("sqfs2tar: %s" % (r2.sanitizer() or "timeout"), r2.err.decode(errors="replace")[-2000:], sig="sanitizer")
    if r2.rc != 0:
        raise Violation("sqfs2tar failed on a tar2sqfs image: %s" % r2.err[-300:].decode(errors="replace"), None, sig="s2t-failed")
    tb = r2.out
    if len(tb) % 512 or tb[-1024:] != b"\0" * 1024:
        raise Violation("sqfs2tar output is not a multiple of 512 bytes ending in two zero blocks (%d bytes)" % len(tb), None, sig="s2t-framing")
    view = expected_tar_view(t1, s)
    if s.get("no_xattr"):
        view = {k: dict(v, xattrs={}) for k, v in view.items()}
    try:
        lst = tarimg.tarfile_listing(tb)
    except Exception as e:
        raise Violation("Python tarfile cannot read sqfs2tar output: %r" % e, None, sig="s2t-tarfile")
    compare_tar_listing(lst, view, s, "Python tarfile")
    if all(len(c) <= 255 for k in view for c in k.split(b"/")) and all(len(k) < 3000 for k in view):
        compare_gnu_tar(tb, view, s, sc)
        classes.append("gnutar")
    if any(n["type"] == "sock" for n in t1.values()) and b"sock" not in r2.err.lower() and not r2.err:
        raise Violation("sqfs2tar skipped a socket without a warning", None, sig="s2t-sock-silent")
    return tb


def check_gen_case(case, opts):
    """'sqfs2tar on ANY image': images written by gensquashfs from generated trees (sockets, every inode type, xattrs on every
    type, hostile names) instead of by tar2sqfs"""
    classes = ["image_from_gensquashfs"]
    s = case["s2t"]
    with Scratch("c04g") as sc:
        try:
            r, img1 = packlib.run_pack(dict(mode="file", nodes=case["nodes"], opts=case["gopts"], xattr_file=case.get("xattr_file")), sc, variant="plain")
        except OSError as e:
            raise Inconclusive(str(e))
        if r.rc != 0 or r.timeout:
            raise Inconclusive("image build failed (C01's business): %s" % r.err[-200:])
        try:
            t1 = sqfsimg.Image(open(img1, "rb").read()).tree()
        except sqfsimg.FormatError as e:
            raise Inconclusive("image does not parse (C01/C03's business): %s" % e)
        if any(b"\n" in k for k in t1):
            raise Inconclusive("newline in a name: GNU tar listing comparison is line based")
        phase_s2t(img1, t1, s, sc, classes)
        if any(n["type"] == "sock" for n in t1.values()):
            classes.append("has_socket")
            if any(n["type"] == "sock" and n.get("xattrs") for n in t1.values()):
                classes.append("socket_with_xattrs")
        return CaseInfo(len(t1) >= 3, classes)


def check_case(case, opts):
    if case.get("gen"):
        return check_gen_case(case, opts)
    ar, o, s = case["archive"], case["opts"], case["s2t"]
    classes = []
    try:
        data = tarimg.encode_archive(ar["entries"], ar["end_marker"], ar["global_pax"], ar["trailing_pad"])
    except OverflowError:
        raise Inconclusive("field overflow in generator")
    try:
        exp = tarimg.expected_from_archive(ar["entries"], o)
        unrep = None
    except treemodel.Unrepresentable as u:
        exp, unrep = None, str(u)
    # generator soundness: the reference reader must list the archive the way the model says
    if opts.get("selfcheck", True):
        try:
            lst = tarimg.tarfile_listing(data)
            for e in ar["entries"]:
                cn = tarimg.canon(e["name"])
                if cn in (None, b""):
                    continue
                g = lst.get(cn)
                if g is None or g["type"] != e["type"] or (e["type"] == "file" and g["sha"] != hashlib.sha256(e["data"]).hexdigest()):
                    return CaseInfo(False, ["generator_reject"])
        except Exception:
            return CaseInfo(False, ["generator_reject_tarfile_error"])
    with Scratch("c04") as sc:
        img1 = os.path.join(sc, "img1.sqfs")
        r = run_t2s(data, o, img1)
        if r.sanitizer():
            raise Violation("tar2sqfs: " + r.sanitizer(), r.err.decode(errors="replace")[-3000:], sig="sanitizer")
        if r.timeout:
            raise Violation("tar2sqfs did not terminate", None, sig="timeout")
        if unrep is not None:
            if r.rc == 0:
                raise Violation("tar2sqfs accepted an archive it must refuse (%s)" % unrep, None, sig="unrep-accepted")
            if os.path.exists(img1):
                raise Violation("tar2sqfs refused the archive but left an output file", None, sig="refused-output-left")
            return CaseInfo(False, ["refused"])
        if r.rc != 0:
            raise Violation("tar2sqfs refused a valid archive: %s" % r.err[-400:].decode(errors="replace"), None, sig="refused-valid")
        d1 = open(img1, "rb").read()
        try:
            im1 = sqfsimg.Image(d1)
            t1 = im1.tree()
        except sqfsimg.FormatError as e:
            raise Violation("tar2sqfs image does not parse: %s" % e, None, sig="unparsable")
        check_mtime = True
        diffs = treemodel.compare_trees({k: v for k, v in exp.items() if k != b""}, {k: v for k, v in t1.items() if k != b""})
        # root: owner/mode/xattrs always; mtime only where the documentation is unambiguous
        re_, rg = exp[b""], t1[b""]
        for f in ("mode", "uid", "gid", "xattrs"):
            if re_[f] != rg[f]:
                diffs.append("root: %s %r, expected %r" % (f, rg[f], re_[f]))
        if o.get("root_becomes") is not None or not re_.get("root_time_from_entry"):
            if re_["mtime"] != rg["mtime"]:
                diffs.append("root: mtime %d, expected %d" % (rg["mtime"], re_["mtime"]))
        if diffs:
            raise Violation("tar2sqfs image differs from the archive: " + "; ".join(diffs[:4]), diffs, sig="t2s-diff")
        v = sqfsimg.validate(im1)
        if v:
            raise Violation("tar2sqfs image violates on-disk invariants: " + "; ".join(v[:3]), v, sig="t2s-invalid")
        classes += ["t2s_ok", "fmt_" + "+".join(sorted(set(e["enc"].get("fmt", "?") for e in ar["entries"])))]
        if any(e.get("sparse") is not None for e in ar["entries"]):
            classes.append("sparse_" + "+".join(sorted(set(e["enc"].get("sparsefmt", "") for e in ar["entries"] if e.get("sparse") is not None))))
        if any(e["type"] == "hlink" for e in ar["entries"]):
            classes.append("hardlink")
        if any(e.get("xattrs") for e in ar["entries"]):
            classes.append("xattr")
        if any(len(e["name"]) >= 100 for e in ar["entries"]):
            classes.append("longname")
        if any(e["enc"].get("num") == "base256" for e in ar["entries"]):
            classes.append("base256")
        if o.get("root_becomes") is not None:
            classes.append("root_becomes")
        tb = phase_s2t(img1, t1, s, sc, classes)
        s2t = vcommon.tool("asan", "sqfs2tar")
        classes.append("s2t_ok")
        if s.get("subdirs"):
            # a selection is not meant to reproduce the image: the listing above is the whole oracle
            classes.append("s2t_subdirs_%d%s" % (len(s["subdirs"]), "_k" if s.get("keep_as_dir") else ""))
            return CaseInfo(True, classes)
        # ---- (3) fix-point
        o2 = dict(o)
        o2.pop("root_becomes", None)
        o2.pop("no_symlink_retarget", None)
        rs = dict(s)
        rs["no_skip"] = False
        if rs.get("root_becomes") not in (None, b"."):
            o2["root_becomes"] = tarimg.canon(rs["root_becomes"])
            o2["no_symlink_retarget"] = True
        img2 = os.path.join(sc, "img2.sqfs")
        r3 = run_t2s(tb, o2, img2)
        if r3.sanitizer() or r3.timeout or r3.rc != 0:
            raise Violation("tar2sqfs cannot re-read sqfs2tar output: rc=%s %s" % (r3.rc, r3.sanitizer() or r3.err[-300:].decode(errors="replace")), None, sig="fix-reread")
        d2 = open(img2, "rb").read()
        try:
            t2 = sqfsimg.Image(d2).tree()
        except sqfsimg.FormatError as e:
            raise Violation("second image does not parse: %s" % e, None, sig="unparsable")
        # semantic equality img1 ~ img2 (root metadata only survives with -r; xattrs only without -X; links only without -L)
        a = {k: dict(v) for k, v in t1.items()}
        b = {k: dict(v) for k, v in t2.items()}
        for tt in (a, b):
            for k, v in tt.items():
                if s.get("no_xattr") or o.get("no_xattr"):
                    v["xattrs"] = {}
                if k == b"" and s.get("root_becomes") is None:
                    for f in ("mode", "uid", "gid", "mtime", "xattrs"):
                        v[f] = None
                if k == b"" and o.get("no_keep_time") is False and s.get("root_becomes") is None:
                    v["mtime"] = None
                v["ino"] = v["ino"] if not s.get("no_hard_links") else None
                v.pop("nlink", None)
                if v["type"] == "dir":
                    v["ino"] = None
        a = {k: v for k, v in a.items() if v["type"] != "sock"}
        if not s.get("no_hard_links"):
            ga, gb = {}, {}
            for k, v in a.items():
                if v["ino"] is not None:
                    ga.setdefault(v["ino"], set()).add(k)
            for k, v in b.items():
                if v["ino"] is not None:
                    gb.setdefault(v["ino"], set()).add(k)
            if set(map(frozenset, ga.values())) != set(map(frozenset, gb.values())):
                raise Violation("tar round trip changed the hard-link groups", None, sig="fix-hl")
        for tt in (a, b):
            for v in tt.values():
                v["ino"] = None
        if o.get("no_keep_time"):
            pass
        if a != b:
            ks = [k for k in set(a) | set(b) if a.get(k) != b.get(k)][:3]
            raise Violation("image -> tar -> image is not semantically the same: %r" % [(k, a.get(k), b.get(k)) for k in ks], None, sig="fix-semantic")
        r4 = vcommon.run([s2t] + s2t_cmd(s) + [img2], timeout=60)
        if r4.sanitizer() or r4.timeout or r4.rc != 0:
            raise Violation("sqfs2tar failed on the second image", r4.err.decode(errors="replace")[-1000:], sig="fix-s2t2")
        img3 = os.path.join(sc, "img3.sqfs")
        r5 = run_t2s(r4.out, o2, img3)
        if r5.sanitizer() or r5.timeout or r5.rc != 0:
            raise Violation("tar2sqfs failed on the second tar", r5.err.decode(errors="replace")[-1000:], sig="fix-t2s3")
        d3 = open(img3, "rb").read()
        multi_x = (not o.get("no_xattr") and not s.get("no_xattr") and
                   any(len([k for k in (e.get("xattrs") or {}) if k.startswith(tarimg.SUPPORTED_XATTR)]) >= 2 for e in ar["entries"]))
        if d3 != d2 and multi_x:
            # known finding "xattr-order-flip": tar2sqfs reverses the order of an entry's xattrs on every trip.
            # Keep searching behind it: the reversal has period two, so img4 must equal img2.
            r6 = vcommon.run([s2t] + s2t_cmd(s) + [img3], timeout=60)
            img4 = os.path.join(sc, "img4.sqfs")
            r7 = run_t2s(r6.out, o2, img4)
            if r6.rc == 0 and r7.rc == 0 and open(img4, "rb").read() == d2:
                raise Violation("tar round trip flips the xattr order of entries with >=2 xattrs on every trip (img3 != img2, img4 == img2)",
                                None, sig="xattr-order-flip")
        if d3 != d2:
            raise Violation("tar round trip is not a byte-exact fix point (img2 %d bytes sha %s, img3 %d bytes sha %s)" % (
                len(d2), hashlib.sha256(d2).hexdigest()[:10], len(d3), hashlib.sha256(d3).hexdigest()[:10]), None, sig="fix-bytes")
        classes.append("fixpoint")
        ents = ar["entries"]
        nontrivial = len(ents) >= 2 and any(c in classes for c in ("hardlink", "xattr", "longname", "base256")) or any(c.startswith("sparse_") for c in classes) \
            or any(e["enc"].get("num") == "pax" or e["enc"].get("longname") == "pax" for e in ents)
        return CaseInfo(bool(nontrivial), classes)


def bigsparse_case(args):
    """A sparse member whose map has offsets beyond 8 GiB (old GNU: base-256 map fields, as GNU tar -S writes them; PAX 0.1 / 1.0: decimal).
    The data islands must come back at their offsets.  args = (format, gap in bytes, number of islands, seed)"""
    fmt, gap, nisl, seed = args
    import random, subprocess
    rng = random.Random(seed * 31 + nisl)
    isl = []
    pos = 0
    for i in range(nisl):
        ln = rng.choice([8, 512, 700, 4096])
        isl.append((pos, rng.randbytes(ln)))
        pos += ln + (gap if i == 0 else rng.choice([512, 4096, 1 << 20]))
    real = isl[-1][0] + len(isl[-1][1])
    segs = [(o, len(d)) for o, d in isl] + [(real, 0)]
    data = b"".join(d for _, d in isl)

    def num(v, n):
        return (b"%0*o" % (n - 1, v) + b"\0") if v < 8 ** (n - 1) else bytes([0x80]) + v.to_bytes(n - 1, "big")
    if fmt == "old":
        h = bytearray(tarimg._header(b"big", 0o644, 0, 0, len(data), 5, b"S", b"", "gnu"))
        ext = b""
        for i, (o, c) in enumerate(segs[:4]):
            h[386 + 24 * i:386 + 24 * i + 24] = num(o, 12) + num(c, 12)
        rest = segs[4:]
        h[482] = 1 if rest else 0
        h[483:495] = num(real, 12)
        h[148:156] = b" " * 8
        h[148:156] = b"%06o\0 " % sum(h)
        while rest:
            blk = bytearray(512)
            for i, (o, c) in enumerate(rest[:21]):
                blk[24 * i:24 * i + 24] = num(o, 12) + num(c, 12)
            rest = rest[21:]
            blk[504] = 1 if rest else 0
            ext += bytes(blk)
        ar = bytes(h) + ext + tarimg._pad(data)
    else:
        if fmt == "0.1":
            recs = [(b"GNU.sparse.size", b"%d" % real), (b"GNU.sparse.numblocks", b"%d" % len(segs)), (b"GNU.sparse.map", b",".join(b"%d,%d" % sg for sg in segs))]
            payload = data
        else:
            recs = [(b"GNU.sparse.major", b"1"), (b"GNU.sparse.minor", b"0"), (b"GNU.sparse.name", b"big"), (b"GNU.sparse.realsize", b"%d" % real)]
            mp_ = b"%d\n" % len(segs) + b"".join(b"%d\n%d\n" % sg for sg in segs)
            payload = tarimg._pad(mp_) + data
        body = tarimg._pax_records(recs)
        ar = tarimg._header(b"./PaxHeaders/big", 0o644, 0, 0, len(body), 0, b"x", b"", "ustar") + tarimg._pad(body) + \
            tarimg._header(b"big" if fmt == "0.1" else b"GNUSparseFile.0/big", 0o644, 0, 0, len(payload), 5, b"0", b"", "ustar") + tarimg._pad(payload)
    ar += tarimg.encode_archive([dict(name=b"zz-after", type="file", mode=0o644, uid=0, gid=0, mtime=1, xattrs={}, data=b"after\n", enc=dict(fmt="ustar"))])
    what = "sparse member (%s map, %d islands, first hole %d bytes, size %d)" % (fmt, nisl, gap, real)
    key = "bigsparse-%s-%d-%d-%d" % (fmt, gap, nisl, seed)
    with Scratch("c04big") as sc:
        img = os.path.join(sc, "o.sqfs")
        r = vcommon.run([vcommon.tool("asan", "tar2sqfs"), "-q", "-c", "lz4", "-b", "1048576", img], stdin=ar, timeout=600)
        if r.timeout or r.sanitizer():
            return ("bad", args, "tar2sqfs on a %s: %s" % (what, "timeout" if r.timeout else r.sanitizer()), key)
        if r.rc != 0:
            return ("bad", args, "tar2sqfs refuses a %s: %s" % (what, r.err[-200:].decode(errors="replace")), key)
        rd = vcommon.tool("plain", "rdsquashfs")
        st_ = vcommon.run([rd, "-s", "big", img], timeout=60)
        m = re.search(rb"File size: (\d+)", st_.out)
        if not m or int(m.group(1)) != real:
            return ("bad", args, "%s: image says %s, expected size %d" % (what, m.group(0) if m else st_.out[:100], real), key)
        # read the file back through a pipe and compare the islands (everything else must be zero at a few probes)
        p = subprocess.Popen([rd, "-c", "big", img], stdout=subprocess.PIPE)
        pos = 0
        ok = True
        why = ""
        for o, d in isl:
            # skip the hole
            left = o - pos
            while left > 0:
                chunk = p.stdout.read(min(left, 1 << 24))
                if not chunk:
                    break
                if left <= (1 << 24) or pos == 0:
                    if any(chunk):
                        ok, why = False, "non-zero bytes in the hole before offset %d" % o
                left -= len(chunk)
                pos += len(chunk)
            got = p.stdout.read(len(d))
            pos += len(got)
            if got != d:
                ok, why = False, "the %d data bytes at offset %d read back as %r..." % (len(d), o, got[:16])
                break
        rest = p.stdout.read()
        p.wait()
        if ok and rest:
            ok, why = False, "%d bytes behind the end" % len(rest)
        if not ok:
            return ("bad", args, "%s: %s" % (what, why), key)
        a = vcommon.run([rd, "-c", "zz-after", img], timeout=60)
        if a.out != b"after\n":
            return ("bad", args, "%s: the member behind it is missing / differs" % what, key)
    return ("ok", args, ["bigsparse_" + fmt, "bigsparse_offsets_beyond_8GiB" if gap >= (8 << 30) else "bigsparse_small"], key)


def strat(tier, opts):
    return cases(tier)


def main(tier, seed, scale=1.0):
    vbuild.build("asan")
    vbuild.build("plain")        # (the 9 GiB read-back of the sparse cases goes through the plain rdsquashfs)
    n = int((4000 if tier == "quick" else 60000) * scale)
    res = Result(PROP)
    vcommon.run_corpus(PROP, check_case, {"prop": PROP}, res)
    import multiprocessing as mp
    bigs = [("old", 9 << 30, 2, seed), ("old", (8 << 30) - 4096, 6, seed), ("0.1", 9 << 30, 3, seed), ("1.0", 9 << 30, 3, seed)]
    if tier != "quick":
        bigs += [("old", 17 << 30, 30, seed), ("old", 1 << 20, 40, seed), ("1.0", 33 << 30, 5, seed), ("0.1", (8 << 30) + 1, 2, seed)]
    bp = mp.get_context("fork").Pool(4)
    bres = bp.map_async(bigsparse_case, bigs if scale >= 0.1 else [], chunksize=1)
    for d in vcommon.run_shards("c04", "check_case", "strat", n, seed, tier, {"prop": PROP}, shards=13):
        res.merge_shard(d)
    for r in bres.get():
        res.evaluations += 1
        if r[0] == "ok":
            res.nontrivial.add(r[3])
            for c in r[2]:
                res.add_class(c)
        else:
            res.violations.append((r[2], vcommon.save_replay(PROP, dict(bigsparse=list(r[1])), r[2])))
    bp.close()
    res.rule = ("Hypothesis archives: entry orders, name/link lengths around 100/155/256, sizes around 512 and k*B, octal/base-256/PAX numbers "
                "incl. negative and >2^33 mtimes, sparse maps old/0.0/0.1/1.0, SCHILY/LIBARCHIVE xattrs, hard links before/after targets, "
                "implicit parents, './' '/' prefixes x tar2sqfs options (-r -S -k -x -s -T -e, compressor, block size) x sqfs2tar options "
                "(-r -X -L); non-trivial = >=2 entries and an extension header, sparse map, hard link, xattr, base-256 field or name >=100 "
                "bytes; oracles: parser(image) == reference semantics; Python tarfile and GNU tar read sqfs2tar output to the image's tree; "
                "img2 == img3 byte for byte")
    res.assumptions = ["tar writer lib/tarimg.py, cross-checked per case against Python tarfile (disagreement = generator reject, counted)",
                       "GNU tar 1.34 and Python tarfile as independent readers"]
    res.extra["min_evaluations"] = n // 3
    return res


def replay(path):
    vbuild.build("asan")
    vbuild.build("plain")
    c = vcommon.load_replay(path)["case"]
    if isinstance(c, dict) and c.get("bigsparse"):
        res = Result(PROP)
        r = bigsparse_case(tuple(c["bigsparse"]))
        if r[0] != "ok":
            res.violations.append((r[2], path))
        return res
    return vcommon.replay_case(PROP, check_case, path)
