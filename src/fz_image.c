/* fz_image - libFuzzer target: an untrusted byte string offered as a SquashFS image to the libsquashfs reader API the
 * way the tools use it (rdsquashfs tree reader, data reader, xattr reader, sqfs2tar iterator stack + tar header
 * writer).  All work that is proportional to sizes the image merely claims is bounded by a work counter, so that only
 * genuine non-termination hits -timeout.  Memory errors are found by ASan/UBSan; counters of non-trivial inputs are
 * written to $VERIF_FZ_STATS.
 *
 * The last input byte selects flags (tree filter flags, which sub-exercise to run).
 */
#include "config.h"
#include "common.h"
#include "dir_tree.h"
#include "tar/tar.h"
#include "sqfs/compressor.h"
#include "sqfs/data_reader.h"
#include "sqfs/dir_reader.h"
#include "sqfs/dir_entry.h"
#include "sqfs/id_table.h"
#include "sqfs/inode.h"
#include "sqfs/super.h"
#include "sqfs/xattr.h"
#include "sqfs/xattr_reader.h"
#include "sqfs/error.h"
#include "sqfs/io.h"

#include <stdint.h>
#include <stdio.h>
#include <stdlib.h>
#include <string.h>

/* ---------------------------------------------------------------- memory file */
typedef struct {
	sqfs_file_t base;
	const uint8_t *data;
	size_t size;
} mem_file_t;

static int mem_read_at(sqfs_file_t *f, sqfs_u64 off, void *buf, size_t size)
{
	mem_file_t *m = (mem_file_t *)f;
	if (off >= m->size || size > m->size - off)
		return SQFS_ERROR_OUT_OF_BOUNDS;
	memcpy(buf, m->data + off, size);
	return 0;
}

static int mem_write_at(sqfs_file_t *f, sqfs_u64 off, const void *buf, size_t size)
{
	(void)f; (void)off; (void)buf; (void)size;
	return SQFS_ERROR_IO;
}

static sqfs_u64 mem_get_size(const sqfs_file_t *f) { return ((const mem_file_t *)f)->size; }
static int mem_truncate(sqfs_file_t *f, sqfs_u64 s) { (void)f; (void)s; return SQFS_ERROR_IO; }
static const char *mem_get_filename(sqfs_file_t *f) { (void)f; return "fuzz.sqfs"; }
static void mem_destroy(sqfs_object_t *o) { free(o); }

static sqfs_object_t *mem_copy(const sqfs_object_t *o)
{
	mem_file_t *c = malloc(sizeof(*c));
	if (c != NULL)
		memcpy(c, o, sizeof(*c));
	return (sqfs_object_t *)c;
}

static sqfs_file_t *mem_file_create(const uint8_t *data, size_t size)
{
	mem_file_t *m = calloc(1, sizeof(*m));
	sqfs_object_init(m, mem_destroy, mem_copy);
	m->data = data;
	m->size = size;
	((sqfs_file_t *)m)->read_at = mem_read_at;
	((sqfs_file_t *)m)->write_at = mem_write_at;
	((sqfs_file_t *)m)->get_size = mem_get_size;
	((sqfs_file_t *)m)->truncate = mem_truncate;
	((sqfs_file_t *)m)->get_filename = mem_get_filename;
	return (sqfs_file_t *)m;
}

/* ---------------------------------------------------------------- discarding ostream */
typedef struct {
	sqfs_ostream_t base;
	size_t total;
} null_ostream_t;

static int null_append(sqfs_ostream_t *s, const void *d, size_t n) { (void)d; ((null_ostream_t *)s)->total += n; return 0; }
static int null_flush(sqfs_ostream_t *s) { (void)s; return 0; }
static const char *null_name(sqfs_ostream_t *s) { (void)s; return "null"; }
static void null_destroy(sqfs_object_t *o) { free(o); }

static sqfs_ostream_t *null_ostream(void)
{
	null_ostream_t *n = calloc(1, sizeof(*n));
	sqfs_object_init(n, null_destroy, NULL);
	((sqfs_ostream_t *)n)->append = null_append;
	((sqfs_ostream_t *)n)->flush = null_flush;
	((sqfs_ostream_t *)n)->get_filename = null_name;
	return (sqfs_ostream_t *)n;
}

/* ---------------------------------------------------------------- statistics */
static unsigned long st_execs, st_super_ok, st_tree_ok, st_nodes, st_files_read, st_iter_entries, st_budget_stops;

static void dump_stats(void)
{
	const char *p = getenv("VERIF_FZ_STATS");
	FILE *f;
	if (!p)
		return;
	f = fopen(p, "w");
	if (f) {
		fprintf(f, "{\"execs\": %lu, \"super_ok\": %lu, \"tree_ok\": %lu, \"nodes\": %lu, \"files_read\": %lu, \"iter_entries\": %lu, \"budget_stops\": %lu}\n",
			st_execs, st_super_ok, st_tree_ok, st_nodes, st_files_read, st_iter_entries, st_budget_stops);
		fclose(f);
	}
}

/* ---------------------------------------------------------------- the exercise */
#define BYTE_BUDGET (4u << 20)
#define NODE_BUDGET 3000

static size_t budget_bytes, budget_nodes;

static void read_file(sqfs_data_reader_t *data, const sqfs_inode_generic_t *inode, unsigned int sel)
{
	sqfs_u8 buf[4096];
	sqfs_istream_t *in = NULL;
	sqfs_u64 size = 0;
	sqfs_u8 *blk = NULL;
	size_t bsz = 0, i, nblk;
	sqfs_s32 r;

	sqfs_inode_get_file_size(inode, &size);
	nblk = sqfs_inode_get_file_block_count(inode);
	/* stream */
	if (sqfs_data_reader_create_stream(data, inode, "f", &in) == 0) {
		while (budget_bytes > 0) {
			r = sqfs_istream_read(in, buf, sizeof(buf));
			if (r <= 0)
				break;
			budget_bytes -= ((size_t)r > budget_bytes) ? budget_bytes : (size_t)r;
		}
		sqfs_drop(in);
	}
	/* positional reads at a few offsets */
	{
		sqfs_u64 offs[5] = { 0, size / 2, size ? size - 1 : 0, size, (sqfs_u64)sel * 977 };
		for (i = 0; i < 5 && budget_bytes > 0; ++i) {
			r = sqfs_data_reader_read(data, inode, offs[i], buf, sizeof(buf));
			if (r > 0)
				budget_bytes -= ((size_t)r > budget_bytes) ? budget_bytes : (size_t)r;
		}
	}
	/* per block access */
	for (i = 0; i < nblk && i < 4 && budget_bytes > 0; ++i) {
		if (sqfs_data_reader_get_block(data, inode, i, &bsz, &blk) == 0) {
			budget_bytes -= (bsz > budget_bytes) ? budget_bytes : bsz;
			free(blk);
		}
	}
	if (sqfs_data_reader_get_fragment(data, inode, &bsz, &blk) == 0)
		free(blk);
	st_files_read++;
}

static void walk(const sqfs_tree_node_t *n, sqfs_data_reader_t *data, sqfs_xattr_reader_t *xr, unsigned int sel, int depth)
{
	const sqfs_tree_node_t *c;
	char *path = NULL;
	sqfs_u32 xidx;

	if (budget_nodes == 0 || depth > 200) {
		st_budget_stops++;
		return;
	}
	budget_nodes--;
	st_nodes++;
	if (sqfs_tree_node_get_path(n, &path) == 0)
		sqfs_free(path);
	if (xr != NULL && sqfs_inode_get_xattr_index(n->inode, &xidx) == 0 && xidx != 0xFFFFFFFF) {
		sqfs_xattr_t *list = NULL;
		if (sqfs_xattr_reader_read_all(xr, xidx, &list) == 0)
			sqfs_xattr_list_free(list);
	}
	if (S_ISREG(n->inode->base.mode) && budget_bytes > 0)
		read_file(data, n->inode, sel);
	for (c = n->children; c != NULL; c = c->next)
		walk(c, data, xr, sel, depth + 1);
}

static void iterate(sqfs_dir_reader_t *dr, sqfs_id_table_t *idtbl, sqfs_data_reader_t *data, sqfs_xattr_reader_t *xr, unsigned int sel)
{
	sqfs_inode_generic_t *root = NULL;
	sqfs_dir_iterator_t *base = NULL, *rec = NULL, *hl = NULL, *it;
	sqfs_ostream_t *out = null_ostream();
	unsigned int counter = 0;
	sqfs_u8 buf[4096];

	if (sqfs_dir_reader_get_root_inode(dr, &root) != 0)
		goto out;
	if (sqfs_dir_iterator_create(dr, idtbl, data, xr, root, &base) != 0)
		goto out;
	if (sqfs_dir_iterator_create_recursive(&rec, base) != 0)
		goto out;
	it = rec;
	if (!(sel & 0x80)) {
		if (sqfs_hard_link_filter_create(&hl, rec) != 0)
			goto out;
		it = hl;
	}
	while (budget_nodes > 0) {
		sqfs_dir_entry_t *ent = NULL;
		sqfs_xattr_t *xattr = NULL;
		char *target = NULL;
		int ret = it->next(it, &ent);

		if (ret != 0)
			break;
		budget_nodes--;
		st_iter_entries++;
		if (S_ISLNK(ent->mode))
			it->read_link(it, &target);
		it->read_xattr(it, &xattr);
		write_tar_header(out, ent, target, xattr, counter++);
		if (S_ISREG(ent->mode) && !(ent->flags & SQFS_DIR_ENTRY_FLAG_HARD_LINK)) {
			sqfs_istream_t *in = NULL;
			if (it->open_file_ro(it, &in) == 0) {
				while (budget_bytes > 0) {
					sqfs_s32 r = sqfs_istream_read(in, buf, sizeof(buf));
					if (r <= 0)
						break;
					budget_bytes -= ((size_t)r > budget_bytes) ? budget_bytes : (size_t)r;
				}
				sqfs_drop(in);
			}
		}
		if ((sel & 0x40) && S_ISDIR(ent->mode) && (counter % 3) == 0)
			it->ignore_subdir(it);
		sqfs_xattr_list_free(xattr);
		sqfs_free(target);
		sqfs_free(ent);
	}
	if (budget_nodes == 0)
		st_budget_stops++;
out:
	sqfs_drop(hl);
	sqfs_drop(rec);
	sqfs_drop(base);
	sqfs_free(root);
	sqfs_drop(out);
}

int LLVMFuzzerTestOneInput(const uint8_t *bytes, size_t size)
{
	sqfs_xattr_reader_t *xr = NULL;
	sqfs_data_reader_t *data = NULL;
	sqfs_dir_reader_t *dr = NULL;
	sqfs_compressor_t *cmp = NULL;
	sqfs_id_table_t *idtbl = NULL;
	sqfs_compressor_config_t cfg;
	sqfs_tree_node_t *tree = NULL;
	sqfs_file_t *file;
	sqfs_super_t super;
	unsigned int sel;
	static int registered;

	if (!registered) {
		registered = 1;
		atexit(dump_stats);
	}
	if ((++st_execs & 0x3FF) == 0)
		dump_stats();
	if (size < 2)
		return 0;
	sel = bytes[size - 1];
	size -= 1;
	budget_bytes = BYTE_BUDGET;
	budget_nodes = NODE_BUDGET;

	file = mem_file_create(bytes, size);
	if (sqfs_super_read(&super, file) != 0)
		goto out;
	st_super_ok++;
	sqfs_compressor_config_init(&cfg, super.compression_id, super.block_size, SQFS_COMP_FLAG_UNCOMPRESS);
	if (sqfs_compressor_create(&cfg, &cmp) != 0)
		goto out;
	if (!(super.flags & SQFS_FLAG_NO_XATTRS)) {
		xr = sqfs_xattr_reader_create(0);
		if (xr == NULL || sqfs_xattr_reader_load(xr, &super, file, cmp) != 0)
			goto out;
	}
	idtbl = sqfs_id_table_create(0);
	if (idtbl == NULL || sqfs_id_table_read(idtbl, file, &super, cmp) != 0)
		goto out;
	dr = sqfs_dir_reader_create(&super, cmp, file, (sel & 0x20) ? SQFS_DIR_READER_DOT_ENTRIES : 0);
	if (dr == NULL)
		goto out;
	data = sqfs_data_reader_create(file, super.block_size, cmp, 0);
	if (data == NULL || sqfs_data_reader_load_fragment_table(data, &super) != 0)
		goto out;
	if (sel & 0x10) {
		iterate(dr, idtbl, data, xr, sel);
	} else {
		if (sqfs_dir_reader_get_full_hierarchy(dr, idtbl, (sel & 1) ? "/" : NULL, (sel & 0x0E) << 1, &tree) == 0) {
			st_tree_ok++;
			walk(tree, data, xr, sel, 0);
			sqfs_dir_tree_destroy(tree);
		}
	}
out:
	sqfs_drop(data);
	sqfs_drop(dr);
	sqfs_drop(idtbl);
	sqfs_drop(xr);
	sqfs_drop(cmp);
	sqfs_drop(file);
	return 0;
}
