"""packlib - generate gensquashfs option sets, run the packer on a generated tree and
compare the image (through the independent parser) with the reference model."""
import os, hashlib, shutil, struct
from hypothesis import strategies as st
import vcommon, vbuild, treemodel, sqfsimg
from vcommon import Violation, Inconclusive, CaseInfo

COMP_EXTRA = {
    "gzip": [None, "level=1", "level=9,window=8", "window=12,filtered,huffman", "rle,fixed,default", "level=5,window=15,default,filtered,huffman,rle,fixed"],
    "xz": [None, "level=0", "dictsize=16384", "x86,arm", "level=3,lc=0,lp=2,pb=0", "extreme,dictsize=8K", "powerpc,ia64,armthumb,sparc", "dictsize=12288", "dictsize=24576"],
    "lzma": [None, "level=1", "dictsize=8K", "lc=4,lp=0,pb=4", "extreme,level=2"],
    "lz4": [None, "hc"],
    "zstd": [None, "level=1", "level=3", "level=19"],
}
BLOCK_SIZES = [4096] * 8 + [8192] * 3 + [16384, 32768, 65536, 131072, 262144, 524288, 1048576]


@st.composite
def pack_opts(draw, mode="dir", comps=("gzip", "xz", "lz4", "zstd", "lzma"), small_blocks=False):
    o = {}
    o["comp"] = draw(st.sampled_from(list(comps)))
    o["X"] = draw(st.sampled_from(COMP_EXTRA[o["comp"]]))
    o["B"] = draw(st.sampled_from(BLOCK_SIZES[:11] if small_blocks else BLOCK_SIZES))
    o["T"] = draw(st.booleans())
    o["e"] = draw(st.booleans())
    o["j"] = draw(st.sampled_from([None, 1, 1, 2, 3, 4, 8]))
    o["Q"] = draw(st.sampled_from([None, None, 1, 2, 5, 100]))
    # any value >= 1024 is accepted, not only powers of two
    o["devblk"] = draw(st.sampled_from([None, None, None, 1024, 2048, 8192, "4K", 1536, 3000, 12345, 100000]))
    d = {}
    if draw(st.integers(0, 2)) == 0:
        # --defaults uid=/gid= accept values up to INT32_MAX only (larger ones are refused with a diagnostic)
        if draw(st.booleans()):
            d["uid"] = draw(treemodel.ids().filter(lambda v: v <= 0x7FFFFFFF))
        if draw(st.booleans()):
            d["gid"] = draw(treemodel.ids().filter(lambda v: v <= 0x7FFFFFFF))
        if draw(st.booleans()):
            d["mode"] = draw(treemodel.modes())
        if draw(st.booleans()):
            d["mtime"] = draw(treemodel.mtimes())
    o["defaults"] = d
    o["source_date_epoch"] = draw(st.sampled_from([None, None, 0, 1700000000, 0xFFFFFFFF]))
    own = draw(st.integers(0, 5))
    if own == 0:
        o["set_uid"] = draw(treemodel.ids().filter(lambda v: v < 0x7FFFFFFF))
    elif own == 1:
        o["set_gid"] = draw(treemodel.ids().filter(lambda v: v < 0x7FFFFFFF))
    elif own == 2:
        o["all_root"] = True
    if mode in ("dir", "glob"):
        o["keep_time"] = draw(st.booleans())
        o["no_hard_links"] = draw(st.sampled_from([False, False, True]))
    if mode == "dir":
        o["keep_xattr"] = draw(st.booleans())
    if mode == "file":
        o["quote_all"] = draw(st.booleans())
        o["late_dirs"] = draw(st.sampled_from([False, False, True]))
        o["loc_style"] = draw(st.integers(0, 1))
        o["packdir_mode"] = draw(st.integers(0, 2))
    o["xattr_styles"] = draw(st.lists(st.integers(0, 2), min_size=1, max_size=3))
    return o


def cmdline(o, out):
    a = (["-c", o["comp"]] if o["comp"] != "default" else []) + ["-b", str(o["B"]), "-q"]
    if o.get("X"):
        a += ["-X", o["X"]]
    if o.get("T"):
        a.append("-T")
    if o.get("e"):
        a.append("-e")
    if o.get("j"):
        a += ["-j", str(o["j"])]
    if o.get("Q"):
        a += ["-Q", str(o["Q"])]
    if o.get("devblk"):
        a += ["-B", str(o["devblk"])]
    d = o.get("defaults") or {}
    if d:
        parts = []
        for k in ("uid", "gid", "mtime"):
            if k in d:
                parts.append("%s=%d" % (k, d[k]))
        if "mode" in d:
            parts.append("mode=0%o" % d["mode"])
        a += ["-d", ",".join(parts)]
    if "set_uid" in o:
        a += ["--set-uid", str(o.get("set_id_spelling", o["set_uid"]))]
    if "set_gid" in o:
        a += ["--set-gid", str(o.get("set_id_spelling", o["set_gid"]))]
    if o.get("all_root"):
        a.append("--all-root")
    if o.get("keep_time"):
        a.append("-k")
    if o.get("keep_xattr"):
        a.append("-x")
    if o.get("no_hard_links"):
        a.append("-H")
    return a


def devblk_bytes(o):
    v = o.get("devblk")
    if v is None:
        return 4096
    if v == "4K":
        return 4096
    return int(v)


def run_pack(case, scratch, variant="asan", extra_args=(), env=None, preload=None, timeout=120, out_name="out.sqfs"):
    """Materialise case under scratch, run gensquashfs; returns (Run, image path, xattr entries)."""
    nodes, o, mode = case["nodes"], case["opts"], case["mode"]
    B = o["B"]
    out = os.path.join(scratch, out_name)
    args = cmdline(o, out)
    e = {}
    if o.get("source_date_epoch") is not None:
        e["SOURCE_DATE_EPOCH"] = str(o["source_date_epoch"])
    if env:
        e.update(env)
    xent = case.get("xattr_file")
    if xent:
        xf = os.path.join(scratch, "xattrs.txt")
        with open(xf, "wb") as fh:
            fh.write(treemodel.xattr_file_text(xent, o.get("xattr_styles")))
        args += ["-A", xf]
    cwd = scratch
    if mode == "dir":
        src = os.path.join(scratch, "src")
        os.mkdir(src)
        treemodel.materialise_dir(nodes, src, B)
        args += ["--pack-dir", src]
    elif mode == "file":
        ind = os.path.join(scratch, "input")
        os.mkdir(ind)
        pm = o.get("packdir_mode", 0)
        text = treemodel.packfile_lines(nodes, B, ind, quote_all=o.get("quote_all", False), loc_style=o.get("loc_style", 0), late_dirs=o.get("late_dirs", False))
        if pm == 0:      # files relative to the directory of the pack file
            lf = os.path.join(ind, "list.txt")
            args += ["-F", lf]
        elif pm == 1:    # explicit -D
            lf = os.path.join(scratch, "list.txt")
            args += ["-F", lf, "-D", ind]
        else:            # no slash in the pack file name: relative to cwd
            lf = os.path.join(ind, "list.txt")
            args += ["-F", "list.txt"]
            cwd = ind
        with open(lf, "wb") as fh:
            fh.write(text)
    elif mode == "glob":
        ind = os.path.join(scratch, "input")
        os.mkdir(ind)
        src = os.path.join(ind, "src")
        os.mkdir(src)
        treemodel.materialise_dir(nodes, src, B)
        g = case["glob"]
        line = b"glob " + treemodel.pf_quote(g["prefix"] or b"/") + b" " + b" ".join(
            (b"*" if g[k] is None else (b"%04o" % g[k] if k == "mode" else b"%d" % g[k])) for k in ("mode", "uid", "gid"))
        if o.get("keep_time"):
            line += b" -keeptime"
        if o.get("no_hard_links"):
            line += b" -nohardlinks"
        for t in g.get("types") or []:
            line += b" -type " + t.encode()
        if g.get("name") is not None:
            line += b" -name " + treemodel.pf_quote(g["name"], True)
        if g.get("path") is not None:
            line += b" -path " + treemodel.pf_quote(g["path"], True)
        if g.get("nonrec"):
            line += b" -nonrecursive"
        line += b" src\n"
        # explicit hard links next to the glob line, onto names the scan will produce (resolved after everything was collected)
        pre_ = (g["prefix"] or b"").strip(b"/")
        for k, tgt in enumerate(g.get("links") or []):
            ll = b"link " + treemodel.pf_quote(b"/zz-explicit-link-%d" % k) + b" 0777 0 0 " + treemodel.pf_quote(b"/" + ((pre_ + b"/") if pre_ else b"") + tgt) + b"\n"
            line = (ll + line) if k % 2 == 0 else (line + ll)
        lf = os.path.join(ind, "list.txt")
        with open(lf, "wb") as fh:
            fh.write(line)
        args = [a for a in args if a not in ("-k", "-H")]
        if g.get("bare"):
            # no directory part in the pack file name and no --pack-dir: paths are relative to the current directory
            args += ["-F", "list.txt"]
            cwd = ind
        else:
            args += ["-F", lf]
    args.append(out)
    r = vcommon.run([vcommon.tool(variant, "gensquashfs")] + list(extra_args) + args, env=e, cwd=cwd, preload=preload, timeout=timeout)
    return r, out


GLOB_TYPE = {"dir": "d", "file": "f", "slink": "l", "chr": "c", "blk": "b", "fifo": "p", "sock": "s"}


def glob_match(pat, name, pathname):
    """fnmatch(3) for patterns made of literals, '*' and '?' (what the generator emits); with pathname=True wildcards do not match '/'"""
    import re
    while b"**" in pat:
        pat = pat.replace(b"**", b"*")
    if pat.count(b"*") > 6:
        raise Inconclusive("pattern with too many wildcards for the reference matcher")
    rx = b""
    for i in range(len(pat)):
        c = pat[i:i + 1]
        if c == b"*":
            rx += b"[^/]*" if pathname else b".*"
        elif c == b"?":
            rx += b"[^/]" if pathname else b"."
        else:
            rx += re.escape(c)
    return re.fullmatch(rx, name, re.S) is not None


def expected_for_case(case):
    nodes, o, mode = case["nodes"], case["opts"], case["mode"]
    B = o["B"]
    if mode in ("dir", "file"):
        return treemodel.expected_tree(nodes, o, mode, B, case.get("xattr_file"))
    # glob: entries appear below prefix; mode/uid/gid replaced unless '*'
    g = case["glob"]
    types = g.get("types")
    keep = []
    by = {n["path"]: n for n in nodes}

    pre0 = g["prefix"].strip(b"/")

    def accepted(n):
        t = n["type"]
        if t == "hlink":
            tn = treemodel.resolve_hlink(nodes, n["path"])
            t = tn["type"]
        if types and GLOB_TYPE[t] not in types:
            return False
        if g.get("name") is not None and not glob_match(g["name"], n["path"].rsplit(b"/", 1)[-1], False):
            return False
        if g.get("path") is not None and not glob_match(g["path"], (pre0 + b"/" + n["path"]) if pre0 else n["path"], True):
            return False
        if g.get("nonrec") and b"/" in n["path"]:
            return False
        return True

    # an entry is only added if all its parents were added as directories (or already exist)
    for n in nodes:
        if not accepted(n):
            continue
        ok = True
        for p in treemodel.parents_of(n["path"]):
            if p not in by or by[p]["type"] != "dir" or not accepted(by[p]):
                ok = False
        if ok:
            keep.append(n)
    pre = g["prefix"].strip(b"/")
    nn = []
    # names of one file of which the one that stands for the inode in the model was filtered out: the names that are left still
    # are one file; the model lets the first of them stand for the inode
    kept_paths = set(k["path"] for k in keep)
    reroot = {}
    for n in keep:
        if n["type"] == "hlink":
            tn = treemodel.resolve_hlink(nodes, n["path"])
            if tn["path"] not in kept_paths:
                reroot.setdefault(tn["path"], []).append(n["path"])
    newreal = {real: sorted(names)[0] for real, names in reroot.items()}
    for n in keep:
        m = dict(n)
        if n["type"] == "hlink":
            tn = treemodel.resolve_hlink(nodes, n["path"])
            if tn["path"] in newreal:
                if newreal[tn["path"]] == n["path"]:
                    m = dict(tn)
                    m["path"] = n["path"]
                    n = m
                else:
                    m["target"] = newreal[tn["path"]]
            else:
                m["target"] = tn["path"]
        m["path"] = (pre + b"/" + m["path"]) if pre else m["path"]
        if m["type"] == "hlink":
            m["target"] = (pre + b"/" + m["target"]) if pre else m["target"]
        if g["mode"] is not None:
            m["mode"] = g["mode"]
        if g["uid"] is not None:
            m["uid"] = g["uid"]
        if g["gid"] is not None:
            m["gid"] = g["gid"]
        nn.append(m)
    o2 = dict(o)
    exp = treemodel.expected_tree(nn, o2, "dir", B, case.get("xattr_file"), extra_implicit=[pre] if pre else [])
    return exp


def check_pack_fidelity(case, scratch, variant="asan", with_validator=True):
    """Runs the packer; returns (image bytes or None, Image or None, Run, classes) or raises Violation."""
    o = case["opts"]
    try:
        exp = expected_for_case(case)
        unrep = None
    except treemodel.Unrepresentable as u:
        exp, unrep = None, str(u)
    try:
        r, out = run_pack(case, scratch, variant)
    except OSError as e:
        raise Inconclusive("materialise: %s" % e)
    san = r.sanitizer()
    if san:
        raise Violation("gensquashfs: " + san, r.err.decode(errors="replace")[-3000:], sig="sanitizer")
    if r.timeout:
        raise Violation("gensquashfs did not terminate within the limit", None, sig="timeout")
    if unrep is not None:
        if r.rc == 0:
            raise Violation("unrepresentable input (%s) was packed with exit status 0" % unrep, None, sig="unrepresentable-accepted")
        if os.path.exists(out):
            raise Violation("unrepresentable input refused but output file left behind", None, sig="refused-output-left")
        return None, None, r, ["refused_unrepresentable"]
    if r.rc != 0 and o.get("X_may_be_refused"):
        # an option value the format does not allow (C03's generator): refusing is right, storing it is judged by the validator
        if os.path.exists(out):
            raise Violation("option -X %s refused but output file left behind" % o.get("X"), None, sig="refused-output-left")
        return None, None, r, ["refused_illegal_option"]
    if r.rc != 0:
        raise Violation("gensquashfs refused a representable input: rc=%d %s" % (r.rc, r.err.decode(errors="replace")[-500:]),
                        None, sig="refused-valid")
    data = open(out, "rb").read()
    try:
        img = sqfsimg.Image(data)
        got = img.tree()
    except sqfsimg.FormatError as e:
        raise Violation("image does not parse: %s" % e, None, sig="unparsable")
    diffs = treemodel.compare_trees(exp, got)
    if diffs:
        raise Violation("image differs from the packed tree: " + "; ".join(diffs[:4]), diffs, sig="tree-diff")
    if img.B != o["B"]:
        raise Violation("block size %d, requested %d" % (img.B, o["B"]))
    if sqfsimg.COMP_NAMES[img.comp] != (o["comp"] if o["comp"] != "default" else "xz"):
        raise Violation("compressor %s, requested %s" % (sqfsimg.COMP_NAMES[img.comp], o["comp"]))
    if img.sb["mtime"] != treemodel.default_mtime(o):
        raise Violation("super block mtime %d, expected default %d" % (img.sb["mtime"], treemodel.default_mtime(o)))
    return data, img, r, image_classes(img, case)


def image_classes(img, case):
    c = ["comp_" + sqfsimg.COMP_NAMES[img.comp], "mode_" + case["mode"]]
    B = img.B
    inos = img.inodes.values()
    if any(i.type == sqfsimg.T_FILE and len(i.block_sizes) >= 2 for i in inos):
        c.append("multi_block")
    if any(i.type == sqfsimg.T_FILE and i.frag_idx != sqfsimg.NOFRAG for i in inos):
        c.append("has_fragment")
    if any(i.type == sqfsimg.T_FILE and any(w == 0 for w in i.block_sizes) for i in inos):
        c.append("sparse")
    if any(i.type == sqfsimg.T_DIR and i.ext for i in inos):
        c.append("ext_dir")
    if any(i.type != sqfsimg.T_DIR and i.nlink > 1 for i in inos):
        c.append("hard_links")
    if img.xattr_hdr:
        c.append("xattrs")
        if any(r and r["ool"] for r in img.xattr_raw):
            c.append("xattr_ool")
    if len(img.table_blocks["inode"]) > 1:
        c.append("inode_table_multi_block")
    if len(img.table_blocks["dir"]) > 1:
        c.append("dir_table_multi_block")
    if len(img.frags) > 1:
        c.append("multi_fragment_blocks")
    starts = {}
    for i in inos:
        if i.type == sqfsimg.T_FILE and i.block_sizes and any(i.block_sizes):
            k = (i.blocks_start, tuple(i.block_sizes))
            starts[k] = starts.get(k, 0) + 1
    if any(v > 1 for v in starts.values()):
        c.append("dedup_blocks")
    if img.export is not None:
        c.append("export")
    if len(img.ids) > 2:
        c.append("ids_gt2")
    return c
