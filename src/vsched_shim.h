/* vsched_shim.h - force-included (-include) into lib/util/src/threadpool.c for the 'sched' build variant:
 * every pthread synchronisation call of the worker pool goes to the controlled scheduler (src/vsched.cc). */
#ifndef VSCHED_SHIM_H
#define VSCHED_SHIM_H
#include <pthread.h>
#include <signal.h>

#ifdef __cplusplus
extern "C" {
#endif
int vs_mutex_init(pthread_mutex_t *m, const pthread_mutexattr_t *a);
int vs_mutex_destroy(pthread_mutex_t *m);
int vs_mutex_lock(pthread_mutex_t *m);
int vs_mutex_unlock(pthread_mutex_t *m);
int vs_cond_init(pthread_cond_t *c, const pthread_condattr_t *a);
int vs_cond_destroy(pthread_cond_t *c);
int vs_cond_wait(pthread_cond_t *c, pthread_mutex_t *m);
int vs_cond_broadcast(pthread_cond_t *c);
int vs_cond_signal(pthread_cond_t *c);
int vs_create(pthread_t *t, const pthread_attr_t *a, void *(*fn)(void *), void *arg);
int vs_join(pthread_t t, void **ret);
int vs_sigmask(int how, const sigset_t *set, sigset_t *old);
#ifdef __cplusplus
}
#endif

#define pthread_mutex_init vs_mutex_init
#define pthread_mutex_destroy vs_mutex_destroy
#define pthread_mutex_lock vs_mutex_lock
#define pthread_mutex_unlock vs_mutex_unlock
#define pthread_cond_init vs_cond_init
#define pthread_cond_destroy vs_cond_destroy
#define pthread_cond_wait vs_cond_wait
#define pthread_cond_broadcast vs_cond_broadcast
#define pthread_cond_signal vs_cond_signal
#define pthread_create vs_create
#define pthread_join vs_join
#define pthread_sigmask vs_sigmask
#endif
