"""vbuild - out-of-tree build variants of /repo's *current working tree*.

build(variant) compiles every library source and the five tools of /repo into
/verif/build/<variant>/ with a flat command list on all cores and returns the
directory.  A variant is rebuilt whenever the sha256 over (repo sources and
headers, variant flags, extra harness sources) differs from its stamp.
Nothing from /repo's own autotools build output is used (except nothing).
"""
import hashlib, os, subprocess, sys, fcntl, shutil, glob, json, time
from concurrent.futures import ThreadPoolExecutor

REPO = os.environ.get("VERIF_REPO", "/repo")
VERIF = os.path.dirname(os.path.dirname(os.path.abspath(__file__)))
# a tree other than /repo (sensitivity experiments) gets its own build directory, so that runs do not disturb each other
BUILD = os.path.join(VERIF, "build" if os.path.abspath(REPO) == "/repo" else "build_" + hashlib.md5(os.path.abspath(REPO).encode()).hexdigest()[:8])
NCPU = os.cpu_count() or 4

TOOLS = ["gensquashfs", "rdsquashfs", "tar2sqfs", "sqfs2tar", "sqfsdiff"]

BASE_CPP = ["-I" + os.path.join(VERIF, "support"), "-I" + os.path.join(REPO, "include"),
            "-D_GNU_SOURCE", "-DHAVE_CONFIG_H",
            "-DWITH_GZIP", "-DWITH_XZ", "-DWITH_LZ4", "-DWITH_ZSTD", "-DWITH_BZIP2",
            "-DWITH_SELINUX", "-DHAVE_PTHREAD", "-pthread"]
LIBS = ["-lz", "-llzma", "-llz4", "-lzstd", "-lbz2", "-lselinux", "-lpthread"]

UB_FATAL = "bounds,null,pointer-overflow,object-size,vla-bound,return,unreachable"
UB_LOG = "shift,signed-integer-overflow,alignment,nonnull-attribute,returns-nonnull-attribute,integer-divide-by-zero,bool,enum,builtin"
ASAN_FLAGS = ["-O1", "-g", "-fno-omit-frame-pointer", "-fsanitize=address",
              "-fsanitize=" + UB_FATAL, "-fno-sanitize-recover=" + UB_FATAL,
              "-fsanitize=" + UB_LOG, "-fsanitize-recover=" + UB_LOG]

EXCLUDE_ALWAYS = {"win32.c", "dir_win32.c", "comp_lzo.c"}

VARIANTS = {
    # the shipped configuration
    "plain": dict(cc="gcc", cflags=["-O2", "-g"], ld=[]),
    # every check that runs tools on generated input
    "asan": dict(cc="clang", cflags=ASAN_FLAGS, ld=ASAN_FLAGS),
    # ASan without the custom pool allocators, so that pool objects get red zones
    "asan_nopool": dict(cc="clang", cflags=ASAN_FLAGS + ["-DNO_CUSTOM_ALLOC"], ld=ASAN_FLAGS,
                        exclude={"mempool.c"}),
    "tsan": dict(cc="clang", cflags=["-O1", "-g", "-fsanitize=thread"], ld=["-fsanitize=thread"]),
    # serial reference implementation of the thread pool (NO_THREAD_IMPL)
    "serial": dict(cc="gcc", cflags=["-O2", "-g", "-DNO_THREAD_IMPL"], ld=[],
                   exclude={"threadpool.c"}),
    # weak checksum: xxh32() masked to $VERIF_HASH_BITS bits
    "weakhash": dict(cc="clang", cflags=ASAN_FLAGS, ld=ASAN_FLAGS,
                     per_file={"xxhash.c": ["-Dxxh32=xxh32_full"]},
                     extra_src=["src/weakhash.c"]),
    # allocation fault injection: project allocations go through counting wrappers
    "allocfault": dict(cc="clang", cflags=ASAN_FLAGS + ["-DNO_CUSTOM_ALLOC"], ld=ASAN_FLAGS +
                       ["-Wl,--wrap=malloc,--wrap=calloc,--wrap=realloc,--wrap=strdup,--wrap=strndup"],
                       exclude={"mempool.c"}, extra_src=["src/allocfault.c"]),
    # libFuzzer: library objects only get coverage instrumentation
    "fuzz": dict(cc="clang", cflags=ASAN_FLAGS + ["-fsanitize=fuzzer-no-link"],
                 ld=ASAN_FLAGS + ["-fsanitize=fuzzer-no-link"], tools=False),
    # controlled scheduler for the thread pool + block processor
    # (no sanitizer: every explored schedule is a fork(), which is very slow under ASan)
    "sched": dict(cc="clang", cflags=["-O1", "-g"], ld=[], tools=False,
                  per_file={"threadpool.c": ["-include", os.path.join(VERIF, "src/vsched_shim.h")]},
                  extra_dep=["src/vsched_shim.h"]),
}


def _sources():
    libs, tools = [], {t: [] for t in TOOLS}
    for root, _, files in os.walk(os.path.join(REPO, "lib")):
        if "/test" in root or not root.endswith("src") and "/src/" not in root + "/":
            continue
        for f in sorted(files):
            if f.endswith(".c"):
                libs.append(os.path.join(root, f))
    for t in TOOLS:
        d = os.path.join(REPO, "bin", t, "src")
        if os.path.isdir(d):
            tools[t] = sorted(os.path.join(d, f) for f in os.listdir(d) if f.endswith(".c"))
    return sorted(libs), tools


def _tree_hash():
    h = hashlib.sha256()
    paths = []
    for top in ("lib", "bin", "include"):
        for root, dirs, files in os.walk(os.path.join(REPO, top)):
            dirs[:] = [d for d in dirs if d not in (".libs", ".deps")]
            for f in files:
                if f.endswith((".c", ".h")):
                    paths.append(os.path.join(root, f))
    for p in sorted(paths):
        h.update(p.encode())
        try:
            with open(p, "rb") as fh:
                h.update(hashlib.sha256(fh.read()).digest())
        except OSError:
            pass
    return h.hexdigest()


_tree_hash_cache = {}


def tree_hash():
    if "h" not in _tree_hash_cache:
        _tree_hash_cache["h"] = _tree_hash()
    return _tree_hash_cache["h"]


class BuildError(Exception):
    pass


def _run(cmd):
    p = subprocess.run(cmd, stdout=subprocess.PIPE, stderr=subprocess.STDOUT)
    return p.returncode, p.stdout.decode(errors="replace"), cmd


def build(variant, quiet=True):
    """Build (if stale) and return the variant directory."""
    v = VARIANTS[variant]
    out = os.path.join(BUILD, variant)
    os.makedirs(out, exist_ok=True)
    h = hashlib.sha256()
    h.update(tree_hash().encode())
    h.update(json.dumps({k: v[k] for k in sorted(v) if k not in ("exclude",)}, sort_keys=True, default=list).encode())
    h.update(repr(sorted(v.get("exclude", []))).encode())
    h.update(repr(BASE_CPP).encode())
    with open(os.path.join(VERIF, "support", "config.h"), "rb") as fh:
        h.update(fh.read())
    for e in v.get("extra_src", []) + v.get("extra_dep", []):
        with open(os.path.join(VERIF, e), "rb") as fh:
            h.update(fh.read())
    want = h.hexdigest()
    stamp = os.path.join(out, "STAMP")
    lock = open(os.path.join(BUILD, variant + ".lock"), "w")
    fcntl.flock(lock, fcntl.LOCK_EX)
    try:
        if os.path.exists(stamp) and open(stamp).read().strip() == want:
            return out
        t0 = time.time()
        for f in glob.glob(os.path.join(out, "*")):
            if os.path.isdir(f):
                shutil.rmtree(f)
            else:
                os.unlink(f)
        os.makedirs(os.path.join(out, "obj"))
        libs, tools = _sources()
        excl = EXCLUDE_ALWAYS | set(v.get("exclude", []))
        cc = v["cc"]
        cmds, libobjs, toolobjs = [], [], {t: [] for t in TOOLS}

        def obj_for(src, prefix):
            rel = os.path.relpath(src, REPO).replace("/", "_")[:-2] + ".o"
            return os.path.join(out, "obj", prefix + rel)

        for s in libs:
            if os.path.basename(s) in excl:
                continue
            o = obj_for(s, "")
            extra = v.get("per_file", {}).get(os.path.basename(s), [])
            cmds.append([cc] + BASE_CPP + v["cflags"] + extra + ["-c", s, "-o", o])
            libobjs.append(o)
        for e in v.get("extra_src", []):
            s = os.path.join(VERIF, e)
            o = os.path.join(out, "obj", "x_" + os.path.basename(e)[:-2] + ".o")
            cmds.append([cc] + BASE_CPP + v["cflags"] + ["-c", s, "-o", o])
            libobjs.append(o)
        if v.get("tools", True):
            for t in TOOLS:
                for s in tools[t]:
                    o = obj_for(s, "")
                    cmds.append([cc] + BASE_CPP + v["cflags"] + ["-I" + os.path.dirname(s), "-c", s, "-o", o])
                    toolobjs[t].append(o)
        with ThreadPoolExecutor(NCPU) as ex:
            res = list(ex.map(_run, cmds))
        bad = [(c, o) for rc, o, c in res if rc != 0]
        if bad:
            raise BuildError("compile failed:\n" + "\n".join(" ".join(c) + "\n" + o for c, o in bad[:5]))
        lib = os.path.join(out, "liball.a")
        rc, o, c = _run(["ar", "rcs", lib] + libobjs)
        if rc:
            raise BuildError(o)
        if v.get("tools", True):
            links = [[cc] + v["ld"] + toolobjs[t] + [lib] + LIBS + ["-o", os.path.join(out, t)] for t in TOOLS]
            with ThreadPoolExecutor(NCPU) as ex:
                res = list(ex.map(_run, links))
            bad = [(c, o) for rc, o, c in res if rc != 0]
            if bad:
                raise BuildError("link failed:\n" + "\n".join(" ".join(c) + "\n" + o for c, o in bad[:5]))
        with open(stamp, "w") as fh:
            fh.write(want + "\n")
        if not quiet:
            print("vbuild: %s built in %.1fs" % (variant, time.time() - t0), file=sys.stderr)
        return out
    finally:
        fcntl.flock(lock, fcntl.LOCK_UN)
        lock.close()


def build_harness(name, variant, sources, cxx=False, extra_flags=(), extra_ld=(), include_tool=None):
    """Compile a harness program (C or C++) in /verif/src against variant's liball.a.

    Returns the binary path (under build/<variant>/h_<name>).  Rebuilt when the
    variant or any of the harness sources changed.
    """
    vdir = build(variant)
    v = VARIANTS[variant]
    srcs = [os.path.join(VERIF, s) if not os.path.isabs(s) else s for s in sources]
    h = hashlib.sha256()
    h.update(open(os.path.join(vdir, "STAMP")).read().encode())
    for s in srcs:
        h.update(open(s, "rb").read())
    for hd in glob.glob(os.path.join(VERIF, "src", "*.h")) + glob.glob(os.path.join(VERIF, "src", "*.hpp")):
        h.update(open(hd, "rb").read())
    h.update(repr((cxx, list(extra_flags), list(extra_ld), include_tool)).encode())
    want = h.hexdigest()
    binp = os.path.join(vdir, "h_" + name)
    stamp = binp + ".stamp"
    lock = open(os.path.join(BUILD, variant + "." + name + ".lock"), "w")
    fcntl.flock(lock, fcntl.LOCK_EX)
    try:
        if os.path.exists(stamp) and os.path.exists(binp) and open(stamp).read().strip() == want:
            return binp
        cc = v["cc"]
        cxxc = {"gcc": "g++", "clang": "clang++"}[cc]
        objs = []
        cmds = []
        for s in srcs:
            o = os.path.join(vdir, "obj", "h_%s_%s.o" % (name, os.path.basename(s).replace(".", "_")))
            iscxx = s.endswith((".cc", ".cpp"))
            comp = [cxxc, "-std=gnu++17"] if iscxx else [cc]
            incs = ["-I" + os.path.join(VERIF, "src")]
            if include_tool:
                incs.append("-I" + os.path.join(REPO, "bin", include_tool, "src"))
            cmds.append(comp + BASE_CPP + v["cflags"] + incs + list(extra_flags) + ["-c", s, "-o", o])
            objs.append(o)
        with ThreadPoolExecutor(NCPU) as ex:
            res = list(ex.map(_run, cmds))
        bad = [(c, o) for rc, o, c in res if rc != 0]
        if bad:
            raise BuildError("harness compile failed:\n" + "\n".join(" ".join(c) + "\n" + o for c, o in bad[:5]))
        linker = cxxc if (cxx or any(s.endswith((".cc", ".cpp")) for s in srcs)) else cc
        rc, o, c = _run([linker] + v["ld"] + objs + [os.path.join(vdir, "liball.a")] + LIBS + list(extra_ld) + ["-o", binp])
        if rc:
            raise BuildError("harness link failed: " + " ".join(c) + "\n" + o)
        open(stamp, "w").write(want + "\n")
        return binp
    finally:
        fcntl.flock(lock, fcntl.LOCK_UN)
        lock.close()


def build_shim(name):
    """Build an LD_PRELOAD shim from src/<name>.c -> build/shims/<name>.so"""
    d = os.path.join(BUILD, "shims")
    os.makedirs(d, exist_ok=True)
    src = os.path.join(VERIF, "src", name + ".c")
    so = os.path.join(d, name + ".so")
    lock = open(os.path.join(BUILD, "shim." + name + ".lock"), "w")
    fcntl.flock(lock, fcntl.LOCK_EX)
    try:
        hs = hashlib.sha256(open(src, "rb").read()).hexdigest()
        st = so + ".stamp"
        if os.path.exists(so) and os.path.exists(st) and open(st).read().strip() == hs:
            return so
        rc, o, c = _run(["gcc", "-O2", "-g", "-shared", "-fPIC", "-D_GNU_SOURCE", src, "-o", so, "-ldl", "-lpthread"])
        if rc:
            raise BuildError("shim build failed: " + o)
        open(st, "w").write(hs + "\n")
        return so
    finally:
        fcntl.flock(lock, fcntl.LOCK_UN)
        lock.close()


ASAN_ENV = {
    "ASAN_OPTIONS": "detect_leaks=0:allocator_may_return_null=1:max_allocation_size_mb=2048:abort_on_error=0:exitcode=97:detect_stack_use_after_return=0",
    "UBSAN_OPTIONS": "print_stacktrace=1:exitcode=98",
}

if __name__ == "__main__":
    for v in sys.argv[1:]:
        try:
            print(build(v, quiet=False))
        except BuildError as e:
            print(e)
            sys.exit(2)
