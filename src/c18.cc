// C18: path canonicalisation / file-name sanity against an independent specification.
//   c18 exh <maxlen> <part> <nparts>   exhaustive over {'/','.','a','b',0xC3}^<=maxlen
//   c18 rc                              rapidcheck, random long strings (RC_PARAMS)
//   c18 replay <hex>                    one input
// Output: one JSON object on stdout; a failing input is printed as "FAIL <hex> <reason>".
#include <cstdio>
#include <cstdlib>
#include <cstring>
#include <string>
#include <vector>
#include <rapidcheck.h>

extern "C" int canonicalize_name(char *filename);
extern "C" bool is_filename_sane(const char *name, bool check_os_specific);

// ---- the specification (DESIGN C18): split on '/', drop empty and "." components,
// fail iff any component is "..", else join with '/'.
static bool spec(const std::string &s, std::string &out)
{
	std::vector<std::string> comps;
	size_t i = 0;
	while (i <= s.size()) {
		size_t j = s.find('/', i);
		if (j == std::string::npos)
			j = s.size();
		std::string c = s.substr(i, j - i);
		if (c == "..")
			return false;
		if (!c.empty() && c != ".")
			comps.push_back(c);
		i = j + 1;
	}
	out.clear();
	for (size_t k = 0; k < comps.size(); ++k) {
		if (k)
			out += '/';
		out += comps[k];
	}
	return true;
}

static bool spec_sane(const std::string &n)
{
	return n != "." && n != ".." && n.find('/') == std::string::npos;
}

static std::string hex(const std::string &s)
{
	static const char *d = "0123456789abcdef";
	std::string r;
	for (unsigned char c : s) {
		r += d[c >> 4];
		r += d[c & 15];
	}
	return r;
}

static unsigned long n_eval, n_nontrivial, n_reject, n_sane_checked;

// returns NULL if OK, else reason
static const char *check_one(const std::string &s)
{
	const size_t guard = 16;
	std::vector<char> buf(s.size() + 1 + guard, (char)0x5A);
	memcpy(buf.data(), s.c_str(), s.size() + 1);
	// exact-size heap copy so ASan sees any write past the terminator too
	char *heap = (char *)malloc(s.size() + 1);
	memcpy(heap, s.c_str(), s.size() + 1);

	std::string want;
	bool ok = spec(s, want);
	int r1 = canonicalize_name(buf.data());
	int r2 = canonicalize_name(heap);
	std::string got_heap = (r2 == 0) ? std::string(heap) : std::string();
	free(heap);
	++n_eval;

	for (size_t i = s.size() + 1; i < buf.size(); ++i)
		if (buf[i] != (char)0x5A)
			return "wrote past the input's terminator";
	if (r1 != r2)
		return "result depends on the buffer";
	if (!ok) {
		++n_reject;
		++n_nontrivial;
		if (r1 == 0)
			return "accepted a path with a '..' component";
		return NULL;
	}
	if (r1 != 0)
		return "refused a path without '..' component";
	std::string got(buf.data());
	if (got != got_heap)
		return "result depends on the buffer";
	if (got != want)
		return "result differs from specification";
	if (got.size() > s.size())
		return "result grew";
	if (got != s)
		++n_nontrivial;
	// idempotence
	std::vector<char> again(got.begin(), got.end());
	again.push_back(0);
	if (canonicalize_name(again.data()) != 0 || got != again.data())
		return "not idempotent";
	// shape
	if (!got.empty() && (got.front() == '/' || got.back() == '/'))
		return "leading/trailing slash";
	if (got.find("//") != std::string::npos)
		return "repeated slash";
	// every component of the result must be a sane file name, and sanity must match the spec
	size_t i = 0;
	while (!got.empty() && i <= got.size()) {
		size_t j = got.find('/', i);
		if (j == std::string::npos)
			j = got.size();
		std::string c = got.substr(i, j - i);
		if (!is_filename_sane(c.c_str(), false))
			return "component of canonical path is not a sane name";
		i = j + 1;
	}
	return NULL;
}

static const char *check_sane(const std::string &s)
{
	++n_sane_checked;
	if (is_filename_sane(s.c_str(), false) != spec_sane(s))
		return "is_filename_sane disagrees with specification";
	return NULL;
}

static void fail(const std::string &s, const char *why)
{
	printf("FAIL %s %s\n", hex(s).c_str(), why);
	fflush(stdout);
}

static const unsigned char ALPHA[5] = {'/', '.', 'a', 'b', 0xC3};

static int run_exh(int maxlen, int part, int nparts)
{
	// enumerate by length, shortest first; partition by index modulo nparts
	unsigned long idx = 0;
	std::string s;
	for (int len = 0; len <= maxlen; ++len) {
		std::vector<int> d(len, 0);
		for (;;) {
			if ((int)(idx++ % (unsigned long)nparts) == part) {
				s.resize(len);
				for (int i = 0; i < len; ++i)
					s[i] = (char)ALPHA[d[i]];
				const char *w = check_one(s);
				if (!w)
					w = check_sane(s);
				if (w) {
					fail(s, w);
					return 1;
				}
			}
			int k = len - 1;
			while (k >= 0 && ++d[k] == 5)
				d[k--] = 0;
			if (k < 0)
				break;
		}
	}
	return 0;
}

int main(int argc, char **argv)
{
	int rc = 0;
	if (argc >= 5 && !strcmp(argv[1], "exh")) {
		rc = run_exh(atoi(argv[2]), atoi(argv[3]), atoi(argv[4]));
	} else if (argc >= 3 && !strcmp(argv[1], "replay")) {
		std::string s;
		for (const char *p = argv[2]; p[0] && p[1]; p += 2) {
			char b[3] = {p[0], p[1], 0};
			s += (char)strtoul(b, NULL, 16);
		}
		const char *w = check_one(s);
		if (!w)
			w = check_sane(s);
		if (w) {
			fail(s, w);
			rc = 1;
		}
	} else if (argc >= 2 && !strcmp(argv[1], "rc")) {
		// byte generator weighted towards the characters the functions care about
		auto byteGen = rc::gen::weightedOneOf<char>({
			{5, rc::gen::just('/')},
			{5, rc::gen::just('.')},
			{4, rc::gen::elementOf(std::string("abXYZ -_\\\"#*?[]\t\n"))},
			{3, rc::gen::map(rc::gen::inRange(1, 256), [](int v) { return (char)v; })},
		});
		// lengths: mostly short/medium, sometimes up to 64 KiB, independent of rapidcheck's size
		auto lenGen = rc::gen::weightedOneOf<int>({
			{6, rc::gen::resize(1000, rc::gen::inRange(0, 40))},
			{3, rc::gen::resize(1000, rc::gen::inRange(40, 2000))},
			{1, rc::gen::resize(1000, rc::gen::inRange(2000, 65537))},
		});
		std::string lastfail;
		const char *why = NULL;
		bool ok = rc::check("canonicalize_name == spec on random strings", [&]() {
			int len = *lenGen;
			std::string s = *rc::gen::container<std::string>((size_t)len, byteGen);
			const char *w = check_one(s);
			if (!w)
				w = check_sane(s);
			// also single components for the sanity predicate
			if (!w) {
				size_t cut = s.find('/');
				std::string c = s.substr(0, cut);
				w = check_sane(c);
			}
			if (w) {
				lastfail = s;
				why = w;
			}
			RC_ASSERT(!w);
		});
		if (!ok) {
			fail(lastfail, why ? why : "?");
			rc = 1;
		}
	} else {
		fprintf(stderr, "usage\n");
		return 2;
	}
	printf("{\"evaluations\": %lu, \"nontrivial\": %lu, \"rejected\": %lu, \"sane_checked\": %lu}\n",
	       n_eval, n_nontrivial, n_reject, n_sane_checked);
	return rc;
}
