"""C18 - path canonicalisation / file-name sanity versus an independent specification.

Exhaustive enumeration of all strings over {'/','.','a','b',0xC3} up to length L
(L=10 quick, 12 thorough) split over 16 processes, plus rapidcheck random strings
(full byte range, up to 64 KiB).  Harness: src/c18.cc linked against the asan
build of the current tree.
"""
import os, subprocess, json, sys
import vcommon, vbuild
from vcommon import Result

PROP = "C18"


def _run(args):
    binp, argv, env = args
    e = dict(os.environ)
    e.update(vbuild.ASAN_ENV)
    e.update(env)
    p = subprocess.run([binp] + argv, stdout=subprocess.PIPE, stderr=subprocess.PIPE, env=e)
    return p.returncode, p.stdout.decode(errors="replace"), p.stderr.decode(errors="replace"), argv


def _harness():
    return vbuild.build_harness("c18", "asan", ["src/c18.cc"], cxx=True, extra_ld=["-lrapidcheck"])


def _digest(res, out, rc, err, argv):
    fails = []
    for line in out.splitlines():
        if line.startswith("FAIL "):
            _, hx, why = line.split(" ", 2)
            fails.append((hx, why))
        elif line.startswith("{"):
            d = json.loads(line)
            res.evaluations += d["evaluations"]
            res.extra["nontrivial_count"] = res.extra.get("nontrivial_count", 0) + d["nontrivial"]
            res.add_class("rejected_dotdot", d["rejected"])
            res.add_class("sanity_checks", d["sane_checked"])
    if rc != 0 and not fails:
        # sanitizer abort or crash inside the harness: the input is unknown here, report the run
        fails.append(("", "harness exit %d: %s" % (rc, (err or out)[-600:])))
    return fails


def main(tier, seed, scale=1.0):
    binp = _harness()
    res = Result(PROP)
    maxlen = 10 if tier == "quick" else 12
    nparts = 16
    jobs = [(binp, ["exh", str(maxlen), str(i), str(nparts)], {}) for i in range(nparts)]
    nrc = int((20000 if tier == "quick" else 400000) * scale)
    rcjobs = [(binp, ["rc"], {"RC_PARAMS": "seed=%d max_success=%d max_size=200" % (seed * 31 + i + 1, nrc // 4)}) for i in range(4)]
    outs = vcommon.pmap(_run, jobs + rcjobs, 16)
    allfails = []
    for rc, out, err, argv in outs:
        allfails += [(hx, why, argv) for hx, why in _digest(res, out, rc, err, argv)]
    total = sum(5 ** k for k in range(maxlen + 1))
    res.exhaustive = True
    res.extra["exhaustive_space"] = "all %d strings over {'/','.','a','b',0xC3} of length 0..%d" % (total, maxlen)
    res.extra["random_cases"] = nrc
    # every enumerated string is distinct; non-trivial = canonical form differs from the input or it is refused
    res.nt_count = res.extra.pop("nontrivial_count", 0)
    res.extra["min_evaluations"] = total
    res.rule = ("exhaustive strings over a 5-letter alphabet up to length %d (each distinct) + %d rapidcheck strings over bytes 1..255 "
                "up to 64 KiB; non-trivial = the specification changes or refuses the string (contains an empty, '.' or '..' "
                "component or a leading/trailing slash); oracle = independent split/drop/join specification, idempotence, "
                "no growth, guard bytes + ASan, is_filename_sane == spec" % (maxlen, nrc))
    res.samples = ["//a/./b/", "a/../b (refused)", "./.a/..b/\\xc3/", ".../a//", "(random) 40..65536-byte strings of '/', '.', letters, bytes 1..255"]
    res.assumptions = ["harness links the asan build of the current tree's lib/util/src/canonicalize_name.c and filename_sane.c"]
    for hx, why, argv in allfails[:3]:
        case = {"hex": hx, "why": why, "argv": argv}
        p = vcommon.save_replay(PROP, case, why)
        res.violations.append(("%s on input hex=%s" % (why, hx[:200]), p))
    return res


def replay(path):
    binp = _harness()
    d = vcommon.load_replay(path)
    res = Result(PROP)
    rc, out, err, argv = _run((binp, ["replay", d["case"]["hex"]], {}))
    if rc != 0:
        res.violations.append((out.strip() or err[-300:], path))
    return res
