"""C11 - packing a directory is independent of the host's enumeration order.

gensquashfs --pack-dir (or a pack file with a glob line) runs on a materialised tree under src/readdir_shim.c, which
permutes the entries returned by readdir() in every directory (identity, reverse, sorted, seeded shuffles).  The
image must be byte-identical for all permutations.
"""
import os, re, hashlib
from hypothesis import strategies as st
import vcommon, vbuild, treemodel, packlib, sqfsimg
from vcommon import Violation, Inconclusive, CaseInfo, Result, Scratch

PROP = "C11"


@st.composite
def cases(draw, tier="quick"):
    mode = draw(st.sampled_from(["dir", "dir", "glob"]))
    o = draw(packlib.pack_opts(mode=mode, comps=("gzip", "zstd", "lz4")))
    o["B"] = 4096
    o["j"] = draw(st.sampled_from([1, 2, 4]))
    o["one_fs"] = draw(st.booleans())
    nodes = draw(treemodel.trees(mode="dir", max_nodes=16, min_nodes=3, want_special=True, want_hlinks=True, name_max=30, file_bias=True))
    case = dict(mode=mode, opts=o, nodes=nodes, perms=draw(st.lists(st.integers(1, 10 ** 6), min_size=2, max_size=4, unique=True)))
    if mode == "glob":
        # (-keeptime / -nohardlinks come before the first -type on the line)
        case["glob"] = dict(prefix=draw(st.sampled_from([b"", b"/pre"])), mode=None, uid=None, gid=None,
                            types=draw(st.sampled_from([None, None, ["f", "d", "l"], ["d", "f", "l", "p", "s", "c", "b"], ["d", "f"], ["f"], ["d", "l"]])))
        # filters that let some names of a multiply-linked file through and not others, or drop a directory whose contents match
        # 'link' lines of the pack file that point at names the scan produces: resolved through whatever the scan made of that name
        cand = [n["path"] for n in nodes if n["type"] in ("file", "hlink") and b"\n" not in n["path"]]
        if cand and draw(st.sampled_from([False, False, True])):
            case["glob"]["links"] = [draw(st.sampled_from(cand)) for _ in range(draw(st.integers(1, 2)))]
        flt = draw(st.sampled_from([None, None, "name", "path"]))
        if flt:
            case["glob"][flt] = draw(st.sampled_from([b"*a*", b"*e*", b"*1*", b"?", b"??*", b"[a-m]*", b"*[0-9]"]))
    # one directory pretends to be a mount point (another st_dev at and below it): with -o / -xdev the result must still not
    # depend on where in its parent's listing it shows up
    dl = [n["path"] for n in nodes if n["type"] == "dir" and b"\n" not in n["path"]]
    if o["one_fs"] and dl and draw(st.booleans()):
        case["mount"] = draw(st.sampled_from(dl))
    return case


def has_multilink(nodes):
    return any(n["type"] == "hlink" for n in nodes)


def check_case(case, opts):
    shim = opts["shim"]
    o = case["opts"]
    known = opts.get("known", {})
    with Scratch("c11") as sc:
        base = os.path.join(sc, "base")
        os.mkdir(base)
        # materialise once, then reuse the same source directory for every permutation
        c0 = dict(case)
        menv = {"VERIF_RD_MOUNT_SUFFIX": "/src/" + os.fsdecode(case["mount"])} if case.get("mount") else {}
        try:
            r, out = packlib.run_pack(c0, base, variant="plain", preload=shim,
                                      env=dict(VERIF_RD_MODE="identity", VERIF_RD_LOG=os.path.join(sc, "rd0.log"), **menv),
                                      extra_args=(["-o"] if o.get("one_fs") else []))
        except OSError as e:
            raise Inconclusive(str(e))
        if r.rc != 0 or r.timeout:
            raise Inconclusive("packing failed: %s" % r.err[-200:])
        ref = open(out, "rb").read()
        cmd = r.cmd
        differed = 0
        results = []
        for i, (m, seed) in enumerate([("reverse", 0), ("sorted", 0)] + [("random", s) for s in case["perms"]]):
            log = os.path.join(sc, "rd%d.log" % (i + 1))
            o2 = os.path.join(sc, "out%d.sqfs" % (i + 1))
            cmd2 = list(cmd[:-1]) + ["-f", o2]
            env = dict(VERIF_RD_MODE=m, VERIF_RD_SEED=str(seed), VERIF_RD_LOG=log, **menv)
            if o.get("source_date_epoch") is not None:
                env["SOURCE_DATE_EPOCH"] = str(o["source_date_epoch"])
            cwd = os.path.join(base, "input") if case["mode"] == "glob" else base
            r2 = vcommon.run(cmd2, env=env, preload=shim, timeout=60, cwd=base)
            if r2.rc != 0:
                raise Violation("gensquashfs fails when readdir returns the entries in %s order: %s" % (m, r2.err[-300:].decode(errors="replace")), None,
                                sig="fails-under-order" + ("-hardlink" if has_multilink(case["nodes"]) else ""))
            try:
                lg = open(log).read()
            except OSError:
                lg = ""
            differed += len(re.findall(r"entries=([2-9]|\d\d+) differs=1", lg))
            got = open(o2, "rb").read()
            if got != ref:
                what = "images differ between native and %s%s readdir order" % (m, (" seed %d" % seed) if m == "random" else "")
                detail = None
                try:
                    a, b = sqfsimg.Image(ref).tree(), sqfsimg.Image(got).tree()
                    d = [(p, a.get(p, {}).get("ino"), b.get(p, {}).get("ino")) for p in sorted(set(a) | set(b)) if a.get(p) != b.get(p)]
                    detail = "trees differ in: %r" % d[:6] if d else "trees equal, layout differs"
                except Exception as e:
                    detail = "parse: %r" % e
                sig = "order-dependent"
                if has_multilink(case["nodes"]) and not o.get("no_hard_links"):
                    # known finding: which name of a multiply-linked file becomes the real inode depends on the scan order,
                    # and with it the inode numbering.  Keep searching behind it: everything else must still agree.
                    try:
                        def norm(t):
                            groups = {}
                            for p, n in t.items():
                                if n["type"] != "dir":
                                    groups.setdefault(n["ino"], set()).add(p)
                            return ({p: {k: v for k, v in n.items() if k != "ino"} for p, n in t.items()}, set(map(frozenset, groups.values())))
                        if norm(a) == norm(b):
                            sig = "order-dependent-hardlink"
                        else:
                            what += " - and not only in the inode numbering"
                    except Exception:
                        pass
                raise Violation(what + " (" + str(detail) + ")", detail, sig=sig)
        cl = ["mode_" + case["mode"]]
        if has_multilink(case["nodes"]):
            cl.append("multilink" + ("_nohl" if o.get("no_hard_links") else ""))
        if case.get("mount"):
            cl.append("pretended_mount_point")
        return CaseInfo(differed >= 1, cl)


def strat(tier, opts):
    return cases(tier)


def main(tier, seed, scale=1.0):
    vbuild.build("plain")
    shim = vbuild.build_shim("readdir_shim")
    n = int((4000 if tier == "quick" else 60000) * scale)
    res = Result(PROP)
    opts = {"prop": PROP, "shim": shim}
    vcommon.run_corpus(PROP, check_case, opts, res)
    for d in vcommon.run_shards("c11", "check_case", "strat", n, seed, tier, opts):
        res.merge_shard(d)
    res.rule = ("Hypothesis directory trees (incl. multiply-linked files inside one and across directories) x options (-H, -o, -k, -x, glob "
                "line) x readdir permutations per directory (reverse, sorted, 2-4 seeded shuffles) injected by an LD_PRELOAD shim; non-trivial = "
                "the shim delivered at least one directory with >=2 entries in a different order than native; oracle = sha256(image) identical")
    res.assumptions = ["enumeration order is permuted at the libc readdir() level"]
    res.extra["min_evaluations"] = n // 3
    return res


def replay(path):
    vbuild.build("plain")
    shim = vbuild.build_shim("readdir_shim")
    return vcommon.replay_case(PROP, check_case, path, {"shim": shim})
