"""C12 - results do not depend on how the OS splits reads and writes.

For generated scenarios (gensquashfs from a directory / pack file + sort + xattr file, tar2sqfs from a pipe,
sqfs2tar / rdsquashfs -c to a pipe, rdsquashfs -u, sqfsdiff) the tool runs under src/io_shim.c which completes
read/write/pread/pwrite in full, short, or with EINTR (seeded sequences, and systematically only the k-th data
call short by one byte / halved / EINTR for every k), stdin is fed in chunks down to one byte and stdout drained
slowly.  Output digest and exit status must equal the unperturbed run.
"""
import os, re
from hypothesis import strategies as st
import vcommon, vbuild, scenarios
from vcommon import Violation, Inconclusive, CaseInfo, Result, Scratch

PROP = "C12"


@st.composite
def cases(draw, tier="quick"):
    c = draw(scenarios.scen_cases(damage=True))
    c["seeds"] = draw(st.lists(st.integers(1, 10 ** 6), min_size=2, max_size=4, unique=True))
    c["feed"] = draw(st.sampled_from([1, 7, 511, 512, 513, 4096]))
    c["drain"] = draw(st.sampled_from([1, 7, 4096]))
    return c


def _summary(log):
    try:
        txt = open(log).read()
    except OSError:
        return {}
    m = re.findall(r"SUMMARY (.*)", txt)
    if not m:
        return {}
    return {k: int(v) for k, v in (kv.split("=") for kv in m[-1].split())}


def check_case(case, opts):
    shim = opts["shim"]
    variant = opts.get("variant", "plain")
    classes = ["kind_" + case["kind"]]
    with Scratch("c12") as sc:
        pre = os.path.join(sc, "prep")
        os.mkdir(pre)
        ctx = scenarios.prepare(case, pre, variant)
        n = [0]

        def go(tag, **kw):
            n[0] += 1
            d = os.path.join(sc, "r%d" % n[0])
            os.mkdir(d)
            log = os.path.join(d, "io.log")
            env = kw.pop("env", None)
            if env is not None:
                env = dict(env, VERIF_IO_LOG=log)
                kw["env"] = env
                kw["preload"] = shim
            o = scenarios.run(ctx, d, **kw)
            s = _summary(log) if env is not None else {}
            vcommon.shutil.rmtree(d, ignore_errors=True)
            return o, s
        ref, _ = go("ref")
        if ref.timeout:
            raise Inconclusive("reference run timed out")
        if ref.san:
            raise Inconclusive("reference run crashed (other property)")

        def compare(o, what, s=None):
            if o.timeout:
                raise Violation("%s: tool hangs (%s)" % (case["kind"], what), None, sig="hang")
            if o.san:
                raise Violation("%s: %s under %s" % (case["kind"], o.san, what), o.err.decode(errors="replace")[-1500:], sig="crash")
            if o.rc != ref.rc:
                raise Violation("%s: exit status %s under %s, %s undisturbed: %s" % (case["kind"], o.rc, what, ref.rc, o.err[-200:].decode(errors="replace")),
                                None, sig="rc-differs")
            if o.digest != ref.digest:
                raise Violation("%s: output differs under %s (exit status %s)" % (case["kind"], what, o.rc), None, sig="output-differs")
        delivered = 0
        # (a) seeded random sequences of short counts / EINTR
        for sd in case["seeds"]:
            o, s = go("short", env=dict(VERIF_IO_MODE="short", VERIF_IO_SEED=str(sd)))
            compare(o, "random short/EINTR sequence seed %d" % sd, s)
            delivered += s.get("short", 0) + s.get("eintr", 0)
        # (b) single-point: only the k-th data call is perturbed, every k
        o, s = go("count", env=dict(VERIF_IO_MODE="short", VERIF_IO_SHORT_K="1000000000"))
        ncalls = s.get("data", 0)
        ks = list(range(1, ncalls + 1))
        limit = opts.get("single_limit", 40)
        if len(ks) > limit:
            step = len(ks) / float(limit)
            ks = sorted(set(ks[int(i * step)] for i in range(limit)) | {1, ncalls})
        else:
            classes.append("single_point_exhaustive")
        for k in ks:
            for kind in ("one", "half", "eintr"):
                o, s = go("single", env=dict(VERIF_IO_MODE="short", VERIF_IO_SHORT_K=str(k), VERIF_IO_SHORT_KIND=kind))
                compare(o, "data call %d of %d %s" % (k, ncalls, {"one": "short by one byte", "half": "halved", "eintr": "interrupted (EINTR)"}[kind]), s)
                delivered += s.get("short", 0) + s.get("eintr", 0)
        # (c) pipe chunking
        if case["kind"] == "t2s":
            o, _ = go("feed", feed_chunk=case["feed"])
            compare(o, "stdin delivered in %d-byte chunks" % case["feed"])
            o, s = go("feed+short", feed_chunk=case["feed"], env=dict(VERIF_IO_MODE="short", VERIF_IO_SEED=str(case["seeds"][0])))
            compare(o, "stdin in %d-byte chunks + short counts" % case["feed"])
            classes.append("feed_%d" % case["feed"])
        if case["kind"] in ("s2t", "rd_cat", "diff"):
            o, _ = go("drain", drain_chunk=case["drain"])
            compare(o, "stdout drained in %d-byte reads" % case["drain"])
            classes.append("drain_%d" % case["drain"])
        classes.append("rc_%s" % ref.rc)
        if case.get("img_cut"):
            classes.append("truncated_image")
        return CaseInfo(delivered > 0 and ncalls >= 2, classes, None)


def strat(tier, opts):
    return cases(tier)


def main(tier, seed, scale=1.0):
    vbuild.build("plain")
    shim = vbuild.build_shim("io_shim")
    n = int((800 if tier == "quick" else 12000) * scale)
    res = Result(PROP, level="fault_enumeration")
    opts = {"prop": PROP, "shim": shim, "single_limit": 40 if tier == "quick" else 400}
    vcommon.run_corpus(PROP, check_case, opts, res)
    for d in vcommon.run_shards("c12", "check_case", "strat", n, seed, tier, opts):
        res.merge_shard(d)
    res.rule = ("Hypothesis scenarios (7 tool invocations over generated trees / archives / images) x fault sequences: 2-4 seeded random "
                "sequences of full/short/EINTR outcomes on every read, write, pread, pwrite; every single data call k short by one, halved or "
                "EINTR (all k when <= the limit, else evenly sampled); stdin chunk sizes 1..4096 and slow stdout consumers; non-trivial = at "
                "least one short transfer or EINTR was actually delivered (shim log) in a run with >=2 data calls; distinct by case hash; "
                "oracle = digest of image/archive/stdout/unpacked tree and exit status equal the undisturbed run")
    res.assumptions = ["faults are injected at the libc wrappers of the tool process (LD_PRELOAD); stdio-internal writes are not intercepted",
                       "plain (shipped configuration) build"]
    res.extra["min_evaluations"] = n // 3
    return res


def replay(path):
    vbuild.build("plain")
    shim = vbuild.build_shim("io_shim")
    return vcommon.replay_case(PROP, check_case, path, {"shim": shim, "single_limit": 400})
