"""sqfsimg - an independent SquashFS 4.0 reader and validator written from doc/format.adoc.

No code of libsquashfs is involved.  Image(data) parses strictly (FormatError on the
first inconsistency that prevents reading); validate(img) evaluates the named
invariants of DESIGN.md (C03) and returns a list of "ID: message" strings.
"""
import struct, zlib, lzma, ctypes, ctypes.util, hashlib

MAGIC = 0x73717368
META = 8192
COMP_NAMES = {1: "gzip", 2: "lzma", 3: "lzo", 4: "xz", 5: "lz4", 6: "zstd"}

F_UNC_INODES, F_UNC_DATA, F_CHECK, F_UNC_FRAGS, F_NO_FRAGS, F_ALWAYS_FRAGS, F_DUPES, F_EXPORT, F_UNC_XATTRS, F_NO_XATTRS, F_COMP_OPT, F_UNC_IDS = (
    1, 2, 4, 8, 0x10, 0x20, 0x40, 0x80, 0x100, 0x200, 0x400, 0x800)

T_DIR, T_FILE, T_SLINK, T_BLK, T_CHR, T_FIFO, T_SOCK = 1, 2, 3, 4, 5, 6, 7
TYPE_NAMES = {1: "dir", 2: "file", 3: "slink", 4: "blk", 5: "chr", 6: "fifo", 7: "sock"}
NOXATTR = 0xFFFFFFFF
NOFRAG = 0xFFFFFFFF
XPFX = {0: b"user.", 1: b"trusted.", 2: b"security."}


class FormatError(Exception):
    pass


_zstd = None
_lz4 = None


def _load_libs():
    global _zstd, _lz4
    if _zstd is None:
        _zstd = ctypes.CDLL("libzstd.so.1")
        _zstd.ZSTD_decompress.restype = ctypes.c_size_t
        _zstd.ZSTD_decompress.argtypes = [ctypes.c_void_p, ctypes.c_size_t, ctypes.c_void_p, ctypes.c_size_t]
        _zstd.ZSTD_isError.restype = ctypes.c_uint
        _zstd.ZSTD_isError.argtypes = [ctypes.c_size_t]
        _zstd.ZSTD_compress.restype = ctypes.c_size_t
        _zstd.ZSTD_compress.argtypes = [ctypes.c_void_p, ctypes.c_size_t, ctypes.c_void_p, ctypes.c_size_t, ctypes.c_int]
        _zstd.ZSTD_compressBound.restype = ctypes.c_size_t
        _zstd.ZSTD_compressBound.argtypes = [ctypes.c_size_t]
    if _lz4 is None:
        _lz4 = ctypes.CDLL("liblz4.so.1")
        _lz4.LZ4_decompress_safe.restype = ctypes.c_int
        _lz4.LZ4_decompress_safe.argtypes = [ctypes.c_char_p, ctypes.c_void_p, ctypes.c_int, ctypes.c_int]
        _lz4.LZ4_compress_default.restype = ctypes.c_int
        _lz4.LZ4_compress_default.argtypes = [ctypes.c_char_p, ctypes.c_void_p, ctypes.c_int, ctypes.c_int]
        _lz4.LZ4_compressBound.restype = ctypes.c_int
        _lz4.LZ4_compressBound.argtypes = [ctypes.c_int]


def zstd_compress(data, level=3):
    _load_libs()
    cap = _zstd.ZSTD_compressBound(len(data))
    buf = ctypes.create_string_buffer(cap)
    n = _zstd.ZSTD_compress(buf, cap, data, len(data), level)
    if _zstd.ZSTD_isError(n):
        raise ValueError("zstd compress")
    return buf.raw[:n]


def zstd_decompress(data, cap):
    _load_libs()
    buf = ctypes.create_string_buffer(max(cap, 1))
    n = _zstd.ZSTD_decompress(buf, cap, data, len(data))
    if _zstd.ZSTD_isError(n):
        raise FormatError("zstd: corrupt block")
    return buf.raw[:n]


def lz4_decompress(data, cap):
    _load_libs()
    buf = ctypes.create_string_buffer(max(cap, 1))
    n = _lz4.LZ4_decompress_safe(data, buf, len(data), cap)
    if n < 0:
        raise FormatError("lz4: corrupt block")
    return buf.raw[:n]


def lz4_compress(data):
    _load_libs()
    cap = _lz4.LZ4_compressBound(len(data))
    buf = ctypes.create_string_buffer(cap)
    n = _lz4.LZ4_compress_default(data, buf, len(data), cap)
    if n <= 0:
        raise ValueError("lz4 compress")
    return buf.raw[:n]


def decompress(comp, data, cap):
    """Decompress one block with compressor id comp into at most cap bytes."""
    try:
        if comp == 1:
            d = zlib.decompressobj()
            out = d.decompress(data, cap + 1)
            if not d.eof:
                raise FormatError("gzip: block does not end / exceeds %d bytes" % cap)
            if d.unused_data:
                raise FormatError("gzip: trailing bytes after stream")
        elif comp == 4:
            d = lzma.LZMADecompressor(format=lzma.FORMAT_XZ)
            out = d.decompress(data, cap + 1)
            if not d.eof:
                raise FormatError("xz: block does not end / exceeds %d bytes" % cap)
        elif comp == 2:
            d = lzma.LZMADecompressor(format=lzma.FORMAT_ALONE)
            out = d.decompress(data, cap + 1)
            size = struct.unpack_from("<Q", data, 5)[0] if len(data) >= 13 else None
            if size is not None and size != len(out):
                raise FormatError("lzma: header size %r != produced %d" % (size, len(out)))
        elif comp == 5:
            out = lz4_decompress(data, cap)
        elif comp == 6:
            out = zstd_decompress(data, cap)
        else:
            raise FormatError("unsupported compressor id %d" % comp)
    except (zlib.error, lzma.LZMAError, EOFError) as e:
        raise FormatError("compressor %d: %s" % (comp, e))
    if len(out) > cap:
        raise FormatError("block unpacks to more than %d bytes" % cap)
    return out


class Inode:
    __slots__ = ("ref", "type", "ext", "mode", "uid_idx", "gid_idx", "uid", "gid", "mtime", "number", "nlink",
                 "xattr_idx", "size", "start_block", "offset", "parent", "index", "blocks_start", "frag_idx",
                 "frag_off", "sparse", "block_sizes", "target", "devno", "end", "entries", "headers", "basic_type")

    def __init__(self):
        for s in self.__slots__:
            setattr(self, s, None)


class DirEntry:
    __slots__ = ("name", "type", "ref", "number", "hdr")


class DirHeader:
    __slots__ = ("count", "start", "inode_number", "lst_off", "blk", "off", "first_name")


class Image:
    def __init__(self, data, parse_tree=True, read_files=False):
        self.d = data
        self.meta = {}  # abs pos -> (payload, stored, compressed)
        self.table_blocks = {"inode": set(), "dir": set(), "frag": set(), "export": set(), "id": set(), "xattr_id": set(),
                             "xattr_kv": set()}
        self._parse_super()
        self._parse_comp_opts()
        self._parse_tables()
        self.inodes = {}  # ref -> Inode
        self.paths = {}   # path(bytes) -> Inode
        self.refcount = {}  # ref -> number of directory entries
        if parse_tree:
            self._walk()

    # ------------------------------------------------------------ low level
    def _parse_super(self):
        d = self.d
        if len(d) < 96:
            raise FormatError("shorter than a super block")
        (magic, inode_count, mtime, block_size, frag_count, comp, block_log, flags, id_count, vmaj, vmin, root,
         bytes_used, id_table, xattr_table, inode_table, dir_table, frag_table, export_table) = struct.unpack_from(
            "<IIIIIHHHHHHQQQQQQQQ", d, 0)
        if magic != MAGIC:
            raise FormatError("bad magic")
        self.sb = dict(inode_count=inode_count, mtime=mtime, block_size=block_size, frag_count=frag_count, comp=comp,
                       block_log=block_log, flags=flags, id_count=id_count, vmaj=vmaj, vmin=vmin, root=root,
                       bytes_used=bytes_used, id_table=id_table, xattr_table=xattr_table, inode_table=inode_table,
                       dir_table=dir_table, frag_table=frag_table, export_table=export_table)
        if vmaj != 4 or vmin != 0:
            raise FormatError("version %d.%d" % (vmaj, vmin))
        if block_size < 4096 or block_size > 1 << 20 or block_size & (block_size - 1):
            raise FormatError("block size %d" % block_size)
        if (1 << block_log) != block_size:
            raise FormatError("block_log %d does not match block size %d" % (block_log, block_size))
        if comp not in COMP_NAMES:
            raise FormatError("compressor id %d" % comp)
        if bytes_used > len(d):
            raise FormatError("bytes_used %d beyond file size %d" % (bytes_used, len(d)))
        self.B = block_size
        self.comp = comp

    def _parse_comp_opts(self):
        self.comp_opts = None
        self.data_start = 96
        if self.sb["flags"] & F_COMP_OPT:
            hdr = struct.unpack_from("<H", self.d, 96)[0]
            if not hdr & 0x8000:
                raise FormatError("compressor options block is marked compressed")
            n = hdr & 0x7FFF
            self.comp_opts = self.d[98:98 + n]
            self.data_start = 98 + n

    def meta_block(self, pos, table=None):
        """Return (payload, stored_size, compressed) of the metadata block at absolute pos."""
        m = self.meta.get(pos)
        if m is None:
            if pos + 2 > self.sb["bytes_used"]:
                raise FormatError("metadata block header at %d beyond bytes_used" % pos)
            hdr = struct.unpack_from("<H", self.d, pos)[0]
            n = hdr & 0x7FFF
            if n > META:
                raise FormatError("metadata block at %d: stored size %d > 8192" % (pos, n))
            if pos + 2 + n > self.sb["bytes_used"]:
                raise FormatError("metadata block at %d runs past bytes_used" % pos)
            raw = self.d[pos + 2:pos + 2 + n]
            if hdr & 0x8000:
                pl, c = raw, False
            else:
                pl, c = decompress(self.comp, raw, META), True
            m = (pl, n, c)
            self.meta[pos] = m
        if table:
            self.table_blocks[table].add(pos)
        return m

    class Cursor:
        def __init__(self, img, base, blk, off, table, limit=None):
            self.img, self.base, self.blk, self.off, self.table, self.limit = img, base, blk, off, table, limit
            pl = img.meta_block(base + blk, table)[0]
            if off > len(pl):
                raise FormatError("offset %d beyond metadata block (len %d) in %s table" % (off, len(pl), table))

        def pos(self):
            # normalise: an offset at the very end of a block is the start of the next
            return (self.blk, self.off)

        def read(self, n):
            out = []
            while n > 0:
                pl, stored, _ = self.img.meta_block(self.base + self.blk, self.table)
                if self.off >= len(pl):
                    if len(pl) < META and self.off == len(pl):
                        # short block: next block follows directly
                        pass
                    nxt = self.blk + 2 + stored
                    if self.limit is not None and self.base + nxt >= self.limit:
                        raise FormatError("%s table: read runs past the end of the table" % self.table)
                    self.blk, self.off = nxt, 0
                    continue
                take = min(n, len(pl) - self.off)
                out.append(pl[self.off:self.off + take])
                self.off += take
                n -= take
            return b"".join(out)

    def _read_lookup(self, name, list_pos, count, entsize, upper):
        """Read a lookup table: location list at list_pos, count entries of entsize bytes."""
        nblk = (count * entsize + META - 1) // META
        if list_pos + 8 * nblk > self.sb["bytes_used"]:
            raise FormatError("%s table location list beyond bytes_used" % name)
        locs = list(struct.unpack_from("<%dQ" % nblk, self.d, list_pos))
        data = b""
        remaining = count * entsize
        for i, l in enumerate(locs):
            pl = self.meta_block(l, name)[0]
            want = min(META, remaining)
            if len(pl) < want:
                raise FormatError("%s table block %d holds %d bytes, need %d" % (name, i, len(pl), want))
            data += pl[:want]
            remaining -= want
        return locs, data

    def _parse_tables(self):
        sb = self.sb
        self.id_locs, raw = self._read_lookup("id", sb["id_table"], sb["id_count"], 4, None)
        self.ids = list(struct.unpack("<%dI" % sb["id_count"], raw))
        self.frags = []
        self.frag_locs = []
        if sb["frag_table"] != 0xFFFFFFFFFFFFFFFF and sb["frag_count"] > 0:
            self.frag_locs, raw = self._read_lookup("frag", sb["frag_table"], sb["frag_count"], 16, None)
            for i in range(sb["frag_count"]):
                self.frags.append(struct.unpack_from("<QII", raw, 16 * i))
        self.export = None
        self.export_locs = []
        if sb["export_table"] != 0xFFFFFFFFFFFFFFFF:
            self.export_locs, raw = self._read_lookup("export", sb["export_table"], sb["inode_count"], 8, None)
            self.export = list(struct.unpack("<%dQ" % sb["inode_count"], raw))
        self.xattr_sets = None
        self.xattr_hdr = None
        if sb["xattr_table"] != 0xFFFFFFFFFFFFFFFF:
            xt = sb["xattr_table"]
            if xt + 16 > sb["bytes_used"]:
                raise FormatError("xattr table header beyond bytes_used")
            kv_start, cnt, unused = struct.unpack_from("<QII", self.d, xt)
            self.xattr_hdr = dict(kv_start=kv_start, count=cnt, unused=unused)
            locs, raw = self._read_lookup("xattr_id", xt + 16, cnt, 16, None)
            self.xattr_locs = locs
            self.xattr_ids = [struct.unpack_from("<QII", raw, 16 * i) for i in range(cnt)]
            self.xattr_sets = [None] * cnt
            self.xattr_raw = [None] * cnt

    def xattrs(self, idx):
        """Return the list of (key, value) of xattr set idx (keys with prefix)."""
        if idx == NOXATTR:
            return []
        if self.xattr_sets is None or idx >= len(self.xattr_sets):
            raise FormatError("xattr index %d out of range" % idx)
        if self.xattr_sets[idx] is None:
            ref, count, size = self.xattr_ids[idx]
            kv = self.xattr_hdr["kv_start"]
            limit = self.xattr_locs[0] if self.xattr_locs else self.sb["xattr_table"]
            cur = Image.Cursor(self, kv, ref >> 16, ref & 0xFFFF, "xattr_kv", limit)
            res = []
            consumed = 0
            ool = 0
            for _ in range(count):
                typ, nlen = struct.unpack("<HH", cur.read(4))
                name = cur.read(nlen)
                vlen = struct.unpack("<I", cur.read(4))[0]
                val = cur.read(vlen)
                consumed += 8 + nlen + vlen
                pf = XPFX.get(typ & 0xFF)
                if pf is None or typ & ~0x1FF:
                    raise FormatError("xattr key type 0x%x" % typ)
                if typ & 0x100:
                    if vlen != 8:
                        raise FormatError("out-of-line xattr value with size %d" % vlen)
                    r = struct.unpack("<Q", val)[0]
                    c2 = Image.Cursor(self, kv, r >> 16, r & 0xFFFF, "xattr_kv", limit)
                    vl2 = struct.unpack("<I", c2.read(4))[0]
                    val = c2.read(vl2)
                    ool += 1
                res.append((pf + name, val))
            self.xattr_sets[idx] = res
            self.xattr_raw[idx] = dict(consumed=consumed, ool=ool, size=size, count=count)
        return self.xattr_sets[idx]

    # ------------------------------------------------------------ inodes
    def inode(self, ref):
        ino = self.inodes.get(ref)
        if ino is not None:
            return ino
        sb = self.sb
        cur = Image.Cursor(self, sb["inode_table"], ref >> 16, ref & 0xFFFF, "inode", sb["dir_table"])
        typ, mode, uidx, gidx, mtime, number = struct.unpack("<HHHHII", cur.read(16))
        ino = Inode()
        ino.ref, ino.mode, ino.uid_idx, ino.gid_idx, ino.mtime, ino.number = ref, mode, uidx, gidx, mtime, number
        if typ < 1 or typ > 14:
            raise FormatError("inode type %d" % typ)
        ino.ext = typ > 7
        ino.type = typ - 7 if typ > 7 else typ
        ino.xattr_idx = NOXATTR
        if uidx >= len(self.ids) or gidx >= len(self.ids):
            raise FormatError("I5: uid/gid index %d/%d >= id count %d (inode %d)" % (uidx, gidx, len(self.ids), number))
        ino.uid, ino.gid = self.ids[uidx], self.ids[gidx]
        t = ino.type
        if t == T_DIR:
            if not ino.ext:
                ino.start_block, ino.nlink, ino.size, ino.offset, ino.parent = struct.unpack("<IIHHI", cur.read(16))
                ino.index = []
            else:
                ino.nlink, ino.size, ino.start_block, ino.parent, icount, ino.offset, ino.xattr_idx = struct.unpack(
                    "<IIIIHHI", cur.read(24))
                ino.index = []
                for _ in range(icount):
                    idx, start, nsz = struct.unpack("<III", cur.read(12))
                    name = cur.read(nsz + 1)
                    ino.index.append((idx, start, name))
        elif t == T_FILE:
            if not ino.ext:
                ino.blocks_start, ino.frag_idx, ino.frag_off, ino.size = struct.unpack("<IIII", cur.read(16))
                ino.sparse, ino.nlink = 0, 1
            else:
                ino.blocks_start, ino.size, ino.sparse, ino.nlink, ino.frag_idx, ino.frag_off, ino.xattr_idx = struct.unpack(
                    "<QQQIIII", cur.read(40))
            nb = ino.size // self.B if ino.frag_idx != NOFRAG else (ino.size + self.B - 1) // self.B
            if nb > (1 << 24):
                raise FormatError("file with %d blocks" % nb)
            ino.block_sizes = list(struct.unpack("<%dI" % nb, cur.read(4 * nb)))
        elif t == T_SLINK:
            ino.nlink, tsz = struct.unpack("<II", cur.read(8))
            if tsz > 65536:
                raise FormatError("symlink target size %d" % tsz)
            ino.target = cur.read(tsz)
            if ino.ext:
                ino.xattr_idx = struct.unpack("<I", cur.read(4))[0]
        elif t in (T_BLK, T_CHR):
            ino.nlink, ino.devno = struct.unpack("<II", cur.read(8))
            if ino.ext:
                ino.xattr_idx = struct.unpack("<I", cur.read(4))[0]
        else:
            ino.nlink = struct.unpack("<I", cur.read(4))[0]
            if ino.ext:
                ino.xattr_idx = struct.unpack("<I", cur.read(4))[0]
        ino.end = cur.pos()
        self.inodes[ref] = ino
        return ino

    def listdir(self, ino):
        """Parse the listing of directory inode ino -> list of DirEntry (also stored in ino.entries)."""
        if ino.entries is not None:
            return ino.entries
        ents, hdrs = [], []
        if ino.size >= 4:
            total = ino.size - 3
            cur = Image.Cursor(self, self.sb["dir_table"], ino.start_block, ino.offset, "dir",
                               self._dir_limit())
            done = 0
            while done < total:
                if total - done < 12:
                    raise FormatError("R3: directory listing of inode %d ends inside a header" % ino.number)
                # position of this header: normalise to the block that really holds its first byte
                pl = self.meta_block(self.sb["dir_table"] + cur.blk, "dir")
                if cur.off >= len(pl[0]):
                    cur.blk, cur.off = cur.blk + 2 + pl[1], 0
                h = DirHeader()
                h.blk, h.off, h.lst_off = cur.blk, cur.off, done
                cnt, h.start, h.inode_number = struct.unpack("<III", cur.read(12))
                h.count = cnt + 1
                done += 12
                if h.count > 256:
                    raise FormatError("R2: directory header with %d entries (inode %d)" % (h.count, ino.number))
                for i in range(h.count):
                    if total - done < 9:
                        raise FormatError("R3: directory listing of inode %d ends inside an entry" % ino.number)
                    off, delta, typ, nsz = struct.unpack("<HhHH", cur.read(8))
                    name = cur.read(nsz + 1)
                    done += 8 + nsz + 1
                    e = DirEntry()
                    e.name, e.type, e.ref, e.number, e.hdr = name, typ, (h.start << 16) | off, (h.inode_number + delta) & 0xFFFFFFFF, h
                    if i == 0:
                        h.first_name = name
                    ents.append(e)
                hdrs.append(h)
            if done != total:
                raise FormatError("R3: directory listing of inode %d overruns its size" % ino.number)
        ino.entries, ino.headers = ents, hdrs
        return ents

    def _dir_limit(self):
        sb = self.sb
        for k in ("frag_locs", "export_locs", "id_locs"):
            l = getattr(self, k, None)
            if l:
                return l[0]
        return sb["bytes_used"]

    def _walk(self):
        root = self.inode(self.sb["root"])
        if root.type != T_DIR:
            raise FormatError("root inode is not a directory")
        self.root = root
        self.paths[b""] = root
        self.parent_of = {root.ref: None}
        stack = [(b"", root)]
        seen_dirs = {root.ref}
        while stack:
            path, d = stack.pop()
            for e in self.listdir(d):
                p = path + b"/" + e.name if path else e.name
                child = self.inode(e.ref)
                self.refcount[e.ref] = self.refcount.get(e.ref, 0) + 1
                self.paths[p] = child
                if child.type == T_DIR:
                    if e.ref in seen_dirs:
                        raise FormatError("directory inode %d reachable twice (loop or hard-linked directory) at %r" % (child.number, p))
                    seen_dirs.add(e.ref)
                    self.parent_of[e.ref] = d
                    stack.append((p, child))

    # ------------------------------------------------------------ file data
    def frag_block(self, idx):
        if idx >= len(self.frags):
            raise FormatError("I5: fragment index %d >= %d" % (idx, len(self.frags)))
        start, size, _ = self.frags[idx]
        n = size & 0xFFFFFF
        if start + n > self.sb["bytes_used"]:
            raise FormatError("fragment block %d outside the image" % idx)
        raw = self.d[start:start + n]
        if size & (1 << 24):
            return raw
        return decompress(self.comp, raw, self.B)

    def file_bytes(self, ino, limit=None):
        out = []
        pos = ino.blocks_start
        remaining = ino.size
        B = self.B
        for w in ino.block_sizes:
            n = w & 0xFFFFFF
            want = min(B, remaining)
            if limit is not None and sum(len(x) for x in out) > limit:
                raise FormatError("file too large for this reader call")
            if w == 0:
                blk = b"\0" * want
            else:
                if pos + n > self.sb["bytes_used"]:
                    raise FormatError("data block outside the image")
                raw = self.d[pos:pos + n]
                blk = raw if w & (1 << 24) else decompress(self.comp, raw, B)
                if len(blk) > want:
                    raise FormatError("D1: data block unpacks to %d bytes, %d expected" % (len(blk), want))
                if len(blk) < want:
                    blk = blk + b"\0" * (want - len(blk))
            out.append(blk)
            pos += n
            remaining -= want
        if ino.frag_idx != NOFRAG:
            fb = self.frag_block(ino.frag_idx)
            tail = ino.size % B
            if remaining != tail:
                raise FormatError("D1: fragment tail %d != remaining %d" % (tail, remaining))
            if ino.frag_off + tail > len(fb):
                raise FormatError("D1: fragment (offset %d + tail %d) outside fragment block of %d bytes" % (ino.frag_off, tail, len(fb)))
            out.append(fb[ino.frag_off:ino.frag_off + tail])
            remaining -= tail
        if remaining != 0:
            raise FormatError("D1: file size %d not covered by blocks/fragment" % ino.size)
        return b"".join(out)

    # ------------------------------------------------------------ tree as plain data
    def tree(self, with_data=True, data_hash=True):
        """path -> dict(type, mode, uid, gid, mtime, nlink, ino, target, devno, xattrs, data|sha)"""
        res = {}
        for p, i in self.paths.items():
            n = dict(type=TYPE_NAMES[i.type], mode=i.mode & 0o7777, uid=i.uid, gid=i.gid, mtime=i.mtime, ino=i.number,
                     nlink=i.nlink, xattrs=dict(self.xattrs(i.xattr_idx)))
            if i.type == T_SLINK:
                n["target"] = i.target
            elif i.type in (T_BLK, T_CHR):
                n["devno"] = i.devno
            elif i.type == T_FILE:
                n["size"] = i.size
                if with_data:
                    b = self.file_bytes(i)
                    n["sha"] = hashlib.sha256(b).hexdigest()
                    if not data_hash:
                        n["data"] = b
            res[p] = n
        return res


# =================================================================== validator
def validate(img, devblk=4096):
    """Evaluate the C03 invariants on a parsed image. Returns a list of 'ID: message'."""
    v = []
    sb = img.sb
    d = img.d
    B = img.B
    add = v.append

    # ---- S2: table order, bytes_used, padding
    if len(d) % devblk:
        add("S2: file size %d is not a multiple of the device block size %d" % (len(d), devblk))
    if sb["bytes_used"] > len(d) or len(d) - sb["bytes_used"] >= devblk:
        add("S2: bytes_used %d vs file size %d (padding must be < one device block)" % (sb["bytes_used"], len(d)))
    if any(d[sb["bytes_used"]:]):
        add("S2: padding after bytes_used is not zero")
    order = [("inode_table", sb["inode_table"]), ("dir_table", sb["dir_table"])]
    if img.frag_locs:
        order.append(("frag_table", sb["frag_table"]))
    if img.export is not None:
        order.append(("export_table", sb["export_table"]))
    order.append(("id_table", sb["id_table"]))
    if img.xattr_hdr is not None:
        order.append(("xattr_table", sb["xattr_table"]))
    for (n1, p1), (n2, p2) in zip(order, order[1:]):
        if not p1 < p2:
            add("S2: %s (%d) is not before %s (%d)" % (n1, p1, n2, p2))
    if sb["inode_table"] < img.data_start:
        add("S2: inode table overlaps super block / compressor options")

    # ---- S3 / I1
    inos = list(img.inodes.values())
    nums = sorted(i.number for i in inos)
    if sb["inode_count"] != len(inos):
        add("S3: super.inode_count %d != %d inodes reachable" % (sb["inode_count"], len(inos)))
    if nums != list(range(1, len(inos) + 1)):
        dup = [n for n in set(nums) if nums.count(n) > 1][:3] if len(nums) < 5000 else []
        add("I1: inode numbers are not exactly 1..%d (min %s max %s dup %s)" % (len(inos), nums[:1], nums[-1:], dup))
    if sb["id_count"] < 1:
        add("S3: id_count is %d" % sb["id_count"])
    used_ids = set()
    for i in inos:
        used_ids.add(i.uid_idx)
        used_ids.add(i.gid_idx)
    if len(set(img.ids)) != len(img.ids):
        add("S3: id table contains duplicates")
    if used_ids and max(used_ids) >= sb["id_count"]:
        add("I5: id index out of range")
    # ---- S4 flags
    fl = sb["flags"]
    any_frag = any(i.type == T_FILE and i.frag_idx != NOFRAG for i in inos)
    if fl & F_NO_FRAGS and (any_frag or sb["frag_count"]):
        add("S4: NO_FRAGMENTS flag set but fragments exist")
    any_x = any(i.xattr_idx != NOXATTR for i in inos)
    if fl & F_NO_XATTRS and any_x:
        add("S4: NO_XATTRS flag set but an inode has xattrs")
    if any_x and img.xattr_hdr is None:
        add("S4: inode has xattr index but there is no xattr table")
    if bool(fl & F_EXPORT) != (img.export is not None):
        add("S4: EXPORTABLE flag %s but export table %s" % (bool(fl & F_EXPORT), "present" if img.export is not None else "absent"))
    if img.comp == 5 and not fl & F_COMP_OPT:
        add("S4: lz4 image without compressor options")
    if img.comp == 2 and fl & F_COMP_OPT:
        add("S4: lzma image with compressor options")
    if fl & F_COMP_OPT:
        want = {1: 8, 4: 8, 5: 8, 6: 4, 3: 8}.get(img.comp)
        if want is not None and len(img.comp_opts) != want:
            add("S4: compressor options payload of %d bytes, expected %d" % (len(img.comp_opts), want))
        elif img.comp == 5 and struct.unpack("<I", img.comp_opts[:4])[0] != 1:
            add("S4: lz4 options version != 1")
        elif img.comp == 4:
            # format.adoc: "must be either a power of 2, or the sum of two consecutive powers of 2" (the kernel's xz wrapper checks it)
            ds = struct.unpack("<I", img.comp_opts[:4])[0]
            low = ds & -ds
            if ds == 0 or not (ds == low or ds == (low | (low << 1))):
                add("S4: xz dictionary size %d is neither 2^n nor 2^n + 2^(n+1)" % ds)
        elif img.comp == 1:
            lvl, win = struct.unpack("<IH", img.comp_opts[:6])
            if not (1 <= lvl <= 9) or not (8 <= win <= 15):
                add("S4: gzip options level %d window %d outside 1..9 / 8..15" % (lvl, win))
    if fl & F_UNC_INODES and any(c for p, (pl, st, c) in img.meta.items() if p in img.table_blocks["inode"]):
        add("S4: UNCOMPRESSED_INODES flag but a compressed inode block exists")

    # ---- M1 metadata blocks
    for pos, (pl, stored, comp) in img.meta.items():
        if comp and stored > len(pl):
            add("M1: metadata block at %d: stored %d bytes > uncompressed %d" % (pos, stored, len(pl)))
        if len(pl) == 0:
            add("M1: empty metadata block at %d" % pos)
    # gap-free tables (inode, dir): consecutive blocks touched must chain
    for name, start, end in (("inode", sb["inode_table"], sb["dir_table"]),
                             ("dir", sb["dir_table"], img._dir_limit())):
        pos = start
        blocks = sorted(img.table_blocks[name])
        chain = set()
        guard = 0
        while pos < end and guard < 1 << 20:
            guard += 1
            try:
                pl, stored, comp = img.meta_block(pos, None)
            except FormatError as e:
                add("M1: %s table does not tile its area: %s" % (name, e))
                break
            chain.add(pos)
            if len(pl) < META and pos + 2 + stored < end:
                add("M1: %s table block at %d is short (%d bytes) but not the last one" % (name, pos, len(pl)))
            if comp and stored > len(pl):
                add("M1: metadata block at %d: stored %d bytes > uncompressed %d" % (pos, stored, len(pl)))
            pos += 2 + stored
        if pos != end and not any(x.startswith("M1: %s table does not" % name) for x in v):
            add("M1: %s table blocks end at %d, next table starts at %d" % (name, pos, end))
        for b in blocks:
            if b not in chain:
                add("M1: %s table: referenced block %d is not on the block chain" % (name, b))

    # ---- T1 lookup tables as the kernel checks them
    def t1(name, locs, list_pos, next_table):
        if not locs:
            return
        for a, b in zip(locs, locs[1:]):
            if not a < b or b - a > META + 2:
                add("T1: %s table blocks not ascending / too far apart (%d, %d)" % (name, a, b))
        last = locs[-1]
        if not last < list_pos or list_pos - last > META + 2:
            add("T1: %s table: last block %d vs location list %d" % (name, last, list_pos))
        if list_pos + 8 * len(locs) > next_table:
            add("T1: %s table location list runs into the next table (%d + %d > %d)" % (name, list_pos, 8 * len(locs), next_table))
        # blocks tile [locs[0], list_pos)
        pos = locs[0]
        for i, l in enumerate(locs):
            if l != pos:
                add("T1: %s table block %d at %d, expected %d (gap/overlap)" % (name, i, l, pos))
                break
            pl, stored, comp = img.meta_block(l)
            pos = l + 2 + stored
            if i + 1 < len(locs) and len(pl) != META:
                add("T1: %s table block %d is not full (%d bytes)" % (name, i, len(pl)))
        else:
            if pos != list_pos:
                add("T1: %s table blocks end at %d but location list is at %d" % (name, pos, list_pos))

    if img.xattr_hdr is not None:
        xt = sb["xattr_table"]
        nloc = len(img.xattr_locs)
        if img.xattr_hdr["count"] == 0:
            add("T1: xattr table present but holds no xattr ids (the kernel refuses that)")
        if xt + 16 + 8 * nloc != sb["bytes_used"]:
            add("T1: xattr id table header + list end at %d, bytes_used is %d" % (xt + 16 + 8 * nloc, sb["bytes_used"]))
        t1("xattr_id", img.xattr_locs, xt, sb["bytes_used"] + 8 * nloc + 16)
        if img.xattr_locs and not img.xattr_hdr["kv_start"] < img.xattr_locs[0]:
            add("T1: xattr kv_start %d not before the first xattr id block %d" % (img.xattr_hdr["kv_start"], img.xattr_locs[0]))
        nxt_for_id = img.xattr_hdr["kv_start"]
    else:
        nxt_for_id = sb["bytes_used"]
    t1("id", img.id_locs, sb["id_table"], nxt_for_id)
    nxt = img.id_locs[0] if img.id_locs else sb["id_table"]
    if img.export is not None:
        t1("export", img.export_locs, sb["export_table"], nxt)
        nxt = img.export_locs[0] if img.export_locs else sb["export_table"]
    if img.frag_locs:
        t1("frag", img.frag_locs, sb["frag_table"], nxt)
        nxt = img.frag_locs[0]
    if sb["dir_table"] > nxt:
        add("T1: directory table start beyond the next table")
    if sb["inode_table"] >= sb["dir_table"]:
        add("T1: inode table not before directory table")
    if sb["frag_count"] != len(img.frags):
        add("S3: fragment_entry_count %d != table length %d" % (sb["frag_count"], len(img.frags)))

    # ---- D1 data blocks / fragments
    data_end = sb["inode_table"]
    for idx, (start, size, unused) in enumerate(img.frags):
        n = size & 0xFFFFFF
        if n > B:
            add("D1: fragment block %d: on-disk size %d > block size" % (idx, n))
        if start < img.data_start or start + n > data_end:
            add("D1: fragment block %d outside the data area" % idx)
        if n == 0:
            add("D1: fragment block %d has size 0" % idx)
        if not size & (1 << 24):
            try:
                un = len(img.frag_block(idx))
                if n > un:
                    add("D1: fragment block %d stored compressed with %d bytes > uncompressed %d" % (idx, n, un))
            except FormatError as e:
                add("D1: fragment block %d: %s" % (idx, e))
        if unused != 0:
            add("D1: fragment table entry %d: unused field is %d" % (idx, unused))
    for i in inos:
        if i.type != T_FILE:
            continue
        pos = i.blocks_start
        remaining = i.size
        sparse = 0
        nb_expect = i.size // B if i.frag_idx != NOFRAG else (i.size + B - 1) // B
        if len(i.block_sizes) != nb_expect:
            add("D1: inode %d: %d block size words, %d expected" % (i.number, len(i.block_sizes), nb_expect))
        for k, w in enumerate(i.block_sizes):
            n = w & 0xFFFFFF
            want = min(B, remaining)
            if w & ~0x1FFFFFF:
                add("D1: inode %d block %d: size word 0x%x has unknown bits" % (i.number, k, w))
            if n > B:
                add("D1: inode %d block %d: on-disk size %d > block size" % (i.number, k, n))
            if w == 0:
                sparse += want
            else:
                if pos < img.data_start or pos + n > data_end:
                    add("D1: inode %d block %d outside the data area" % (i.number, k))
                elif not w & (1 << 24):
                    try:
                        un = len(decompress(img.comp, d[pos:pos + n], B))
                        if n > un:
                            add("D1: inode %d block %d stored compressed with %d bytes > uncompressed %d" % (i.number, k, n, un))
                        if un > want:
                            add("D1: inode %d block %d unpacks to %d > %d" % (i.number, k, un, want))
                    except FormatError as e:
                        add("D1: inode %d block %d: %s" % (i.number, k, e))
                elif n > want:
                    add("D1: inode %d block %d: raw size %d > expected %d" % (i.number, k, n, want))
            pos += n
            remaining -= want
        if i.frag_idx != NOFRAG:
            if i.frag_idx >= len(img.frags):
                add("I5: inode %d fragment index %d >= %d" % (i.number, i.frag_idx, len(img.frags)))
            else:
                try:
                    fl_ = len(img.frag_block(i.frag_idx))
                    if i.frag_off + (i.size % B) > fl_:
                        add("D1: inode %d fragment offset+tail outside fragment block" % i.number)
                except FormatError:
                    pass
            if i.size % B == 0:
                add("D1: inode %d has a fragment but size is a multiple of the block size" % i.number)
        if i.ext and i.sparse != sparse:
            add("D1: inode %d sparse counter %d != %d bytes in omitted blocks" % (i.number, i.sparse, sparse))
        # I2: basic/extended choice
        need_ext = (i.size > 0xFFFFFFFF or i.blocks_start > 0xFFFFFFFF or (i.nlink or 1) > 1 or i.xattr_idx != NOXATTR)
        if not i.ext and (i.size > 0xFFFFFFFF):
            add("I2: inode %d must be extended" % i.number)
        if not i.ext and sparse and False:
            pass
    # ---- I3 link counts, I4 parents, I5 xattr idx, R*, directory checks
    nx = len(img.xattr_sets) if img.xattr_sets is not None else 0
    for i in inos:
        if i.xattr_idx != NOXATTR and i.xattr_idx >= nx:
            add("I5: inode %d xattr index %d >= %d" % (i.number, i.xattr_idx, nx))
        if i.type == T_DIR:
            ents = i.entries or []
            if i.nlink != 2 + len(ents):
                add("I3: directory inode %d: nlink %d != 2 + %d entries" % (i.number, i.nlink, len(ents)))
            par = img.parent_of.get(i.ref)
            if par is None:
                if i.parent not in (0, sb["inode_count"] + 1):
                    add("I4: root parent inode is %d" % i.parent)
            elif i.parent != par.number:
                add("I4: directory inode %d: parent %d, real parent %d" % (i.number, i.parent, par.number))
            lsize = (i.size - 3) if i.size >= 4 else 0
            if not i.ext and lsize + 3 > 0xFFFF:
                add("I2: basic directory with listing %d bytes" % lsize)
            if i.size in (1, 2) or (i.size == 3 and ents):
                add("R3: directory inode %d has size %d" % (i.number, i.size))
            if not ents and i.size not in (0, 3):
                add("R3: empty directory inode %d has size %d" % (i.number, i.size))
            prev = None
            for e in ents:
                if prev is not None and not prev < e.name:
                    add("R1: directory inode %d: %r not strictly after %r" % (i.number, e.name, prev))
                prev = e.name
                if not 1 <= len(e.name) <= 256:
                    add("R1: name of %d bytes in directory inode %d" % (len(e.name), i.number))
                if b"/" in e.name or b"\0" in e.name or e.name in (b".", b".."):
                    add("R1: invalid entry name %r in directory inode %d" % (e.name, i.number))
                tgt = img.inodes[e.ref]
                if tgt.type != e.type:
                    add("R2: entry %r type %d but inode type %d" % (e.name, e.type, tgt.type))
                if tgt.number != e.number:
                    add("R2: entry %r inode number %d but inode says %d" % (e.name, e.number, tgt.number))
                delta = e.number - e.hdr.inode_number
                if not -32768 <= ((delta + 0x80000000) % 0x100000000 - 0x80000000) <= 32767:
                    add("R2: entry %r delta does not fit 16 bits" % e.name)
            for h in (i.headers or []):
                if h.count > 256:
                    add("R2: header with %d entries" % h.count)
            # R4 index
            if i.ext and i.index:
                hd = {h.lst_off: h for h in i.headers}
                for (idx, start, name) in i.index:
                    h = hd.get(idx)
                    if h is None:
                        add("R4: directory inode %d: index entry %r points at offset %d which is not a header" % (i.number, name, idx))
                        continue
                    if start != h.blk:
                        add("R4: directory inode %d: index entry %r start %d but header lives in block %d" % (i.number, name, start, h.blk))
                    if name != h.first_name:
                        add("R4: directory inode %d: index name %r != first entry %r" % (i.number, name, h.first_name))
                if [x[0] for x in i.index] != sorted(set(x[0] for x in i.index)):
                    add("R4: directory inode %d: index not ascending" % i.number)
        else:
            rc = img.refcount.get(i.ref, 0)
            if i.nlink != rc:
                add("I3: inode %d (type %d): nlink %d != %d directory entries" % (i.number, i.type, i.nlink, rc))
            if rc > 1 and not i.ext and i.type == T_FILE:
                add("I2: basic file inode %d has %d links" % (i.number, rc))
    # ---- X1 xattrs
    if img.xattr_hdr is not None:
        for idx in range(len(img.xattr_ids)):
            try:
                img.xattrs(idx)
                r = img.xattr_raw[idx]
                if r["consumed"] != r["size"]:
                    add("X1: xattr set %d: size field %d != %d bytes of key/value records" % (idx, r["size"], r["consumed"]))
                keys = [k for k, _ in img.xattr_sets[idx]]
                if len(keys) != len(set(keys)):
                    add("X1: xattr set %d has duplicate keys" % idx)
            except FormatError as e:
                add("X1: xattr set %d: %s" % (idx, e))
        used = set(i.xattr_idx for i in inos if i.xattr_idx != NOXATTR)
        if img.xattr_hdr["count"] and not used:
            pass
    # ---- E1 export table
    if img.export is not None:
        bynum = {i.number: i for i in inos}
        for n, ref in enumerate(img.export, 1):
            t = bynum.get(n)
            if t is None or t.ref != ref:
                add("E1: export table entry %d = 0x%x does not resolve to inode %d" % (n, ref, n))
                break
    # root reference
    if sb["root"] != img.root.ref:
        add("S1: root ref")
    return v


def parse_and_validate(path_or_bytes, devblk=4096):
    data = path_or_bytes if isinstance(path_or_bytes, (bytes, bytearray)) else open(path_or_bytes, "rb").read()
    img = Image(data)
    # make sure every file parses (D1 needs it) - errors surface as FormatError
    return img, validate(img, devblk)


if __name__ == "__main__":
    import sys
    img, v = parse_and_validate(sys.argv[1])
    print(img.sb)
    for p, n in sorted(img.tree().items()):
        print(p, n)
    print("violations:", v)
