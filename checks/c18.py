"""C18 - path canonicalisation / file-name sanity versus an independent specification.

Exhaustive enumeration of all strings over {'/','.','a','b',0xC3} up to length L
(L=10 quick, 12 thorough) split over 16 processes, plus rapidcheck random strings
(full byte range, up to 64 KiB).  Harness: src/c18.cc linked against the asan
build of the current tree.
"""
import os, subprocess, json, sys
import vcommon, vbuild
from vcommon import Result

PROP = "C18"


def _run(args):
    binp, argv, env = args
    e = dict(os.environ)
    e.update(vbuild.ASAN_ENV)
    e.update(env)
    p = subprocess.run([binp] + argv, stdout=subprocess.PIPE, stderr=subprocess.PIPE, env=e)
    return p.returncode, p.stdout.decode(errors="replace"), p.stderr.decode(errors="replace"), argv


def _harness():
    return vbuild.build_harness("c18", "asan", ["src/c18.cc"], cxx=True, extra_ld=["-lrapidcheck"])


def _digest(res, out, rc, err, argv):
    fails = []
    for line in out.splitlines():
        if line.startswith("FAIL "):
            _, hx, why = line.split(" ", 2)
            fails.append((hx, why))
        elif line.startswith("{"):
            d = json.loads(line)
            res.evaluations += d["evaluations"]
            res.extra["nontrivial_count"] = res.extra.get("nontrivial_count", 0) + d["nontrivial"]
            res.add_class("rejected_dotdot", d["rejected"])
            res.add_class("sanity_checks", d["sane_checked"])
    if rc != 0 and not fails:
        # sanitizer abort or crash inside the harness: the input is unknown here, report the run
        fails.append(("", "harness exit %d: %s" % (rc, (err or out)[-600:])))
    return fails


# ------------------------------------------------------------------ layer 2: every tool funnels its paths through the two functions
# Metamorphic: a path spelled with leading / repeated slashes, './' and '/./' components (and, for directories and link
# targets, a trailing '/' or '/.') must be treated exactly like its canonical spelling by every entry point that takes paths:
# tar member names, tar hard link targets, tar2sqfs --exclude-dir globs, pack file paths and link targets, rdsquashfs path
# arguments.  A '..' component anywhere must make the tool fail.
from hypothesis import strategies as st
from vcommon import Violation, Inconclusive, CaseInfo, Scratch
import hashlib

NAMES = [b"a", b"b", b"dir", b"skip", b"x.y", b".hid", b"..data", b"sub"]


@st.composite
def funnel_cases(draw, tier="quick"):
    # a small tree with canonical paths
    dirs = [b""]
    nodes = []
    used = set()
    for i in range(draw(st.integers(2, 9))):
        parent = draw(st.sampled_from(dirs))
        name = draw(st.sampled_from(NAMES))
        path = parent + b"/" + name if parent else name
        if path in used:
            continue
        used.add(path)
        files = [n["path"] for n in nodes if n["type"] == "file"]
        t = draw(st.sampled_from(["dir", "dir", "file", "file", "file", "slink"] + (["hlink", "hlink"] if files else [])))
        n = dict(path=path, type=t)
        if t == "dir":
            dirs.append(path)
        elif t == "file":
            n["data"] = b"content of " + path
        elif t == "slink":
            n["target"] = draw(st.sampled_from([b"a", b"../x", b"/abs//t/./u"]))
        else:
            n["target"] = draw(st.sampled_from(files))
        nodes.append(n)
    # one decoration per path use; 0 = canonical
    deco = lambda: (draw(st.sampled_from([b"", b"", b"/", b"./", b"//", b"././", b"/./"])), draw(st.sampled_from([b"/", b"/", b"//", b"/./", b"/.//"])),
                    draw(st.sampled_from([b"", b"", b"/", b"/.", b"//"])))
    return dict(nodes=nodes, deco_name={n["path"]: deco() for n in nodes}, deco_tgt={n["path"]: deco() for n in nodes if n["type"] == "hlink"},
                what=draw(st.sampled_from(["tar_names", "tar_names", "tar_exclude", "pack_file", "pack_glob", "sort_file", "tar_rootbecomes", "rd_path", "rd_path", "dotdot", "s2t_opts"])),
                s2t_root=draw(st.sampled_from([b"pre", b"pre/sub", b"x.y", b".hid"])), s2t_deco=deco(),
                exclude=draw(st.sampled_from([b"skip/*", b"dir", b"*/sub", b"a*"])), ex_deco=deco(),
                dd_where=draw(st.sampled_from(["name", "target", "arg"])), dd_style=draw(st.sampled_from([b"../", b"x/../", b"./../", b"x/.././"])))


def spell(path, d, is_dir):
    lead, sep, trail = d
    if not path:
        return path
    return lead + path.replace(b"/", sep) + (trail if is_dir else b"")


def _tar(case, names, targets):
    import tarimg
    ents = []
    for n in case["nodes"]:
        nm = names[n["path"]]
        base = dict(name=nm, mode=0o755 if n["type"] == "dir" else 0o644, uid=0, gid=0, mtime=1, xattrs={}, enc=dict(fmt="ustar", longname="gnu", num="octal", ostyle=0))
        if n["type"] == "dir":
            ents.append(dict(base, type="dir"))
        elif n["type"] == "file":
            ents.append(dict(base, type="file", data=n["data"]))
        elif n["type"] == "slink":
            ents.append(dict(base, type="slink", mode=0o777, linkname=n["target"]))
        else:
            ents.append(dict(base, type="hlink", linkname=targets[n["path"]]))
    return tarimg.encode_archive(ents, True, False, 0)


def _pack(case, names, targets):
    import treemodel
    lines = []
    for n in case["nodes"]:
        nm = treemodel.pf_quote(b"/" + names[n["path"]] if not names[n["path"]].startswith(b"/") else names[n["path"]])
        if n["type"] == "dir":
            lines.append(b"dir " + nm + b" 0755 0 0")
        elif n["type"] == "file":
            lines.append(b"file " + nm + b" 0644 0 0 in/" + hashlib.md5(n["path"]).hexdigest().encode())
        elif n["type"] == "slink":
            lines.append(b"slink " + nm + b" 0777 0 0 " + treemodel.pf_quote(n["target"]))
        else:
            lines.append(b"link " + nm + b" 0 0 0 " + treemodel.pf_quote(targets[n["path"]]))
    return b"\n".join(lines) + b"\n"


def treemodel_quote(b):
    import treemodel
    return treemodel.pf_quote(b)


def check_case(case, opts):
    nodes = case["nodes"]
    if not nodes:
        raise Inconclusive("empty")
    isdir = {n["path"]: n["type"] == "dir" for n in nodes}
    canon_names = {n["path"]: n["path"] for n in nodes}
    canon_tgts = {n["path"]: n["target"] for n in nodes if n["type"] == "hlink"}
    sp_names = {p: spell(p, case["deco_name"][p], isdir[p]) for p in canon_names}
    sp_tgts = {p: spell(t, case["deco_tgt"][p], True) for p, t in canon_tgts.items()}
    what = case["what"]
    t2s = vcommon.tool("asan", "tar2sqfs")
    gen = vcommon.tool("asan", "gensquashfs")
    rd = vcommon.tool("asan", "rdsquashfs")
    changed = sum(1 for p in sp_names if sp_names[p] != p) + sum(1 for p in sp_tgts if sp_tgts[p] != canon_tgts[p])

    def judge(r, whatrun):
        if r.timeout:
            raise Violation("%s hangs" % whatrun, None, sig="hang")
        if r.sanitizer():
            raise Violation("%s: %s" % (whatrun, r.sanitizer()), r.err.decode(errors="replace")[-1500:], sig="sanitizer")

    with Scratch("c18") as sc:
        def t2s_run(tar, out, extra=()):
            r = vcommon.run([t2s, "-q", "-c", "gzip", "-b", "4096"] + list(extra) + [out], stdin=tar, timeout=60)
            judge(r, "tar2sqfs")
            return r

        def both_images(r1, r2, o1, o2, label):
            if (r1.rc == 0) != (r2.rc == 0):
                raise Violation("%s: canonical spelling exits %d, other spelling of the same paths exits %d: %s" % (
                    label, r1.rc, r2.rc, (r2.err if r2.rc else r1.err)[-200:].decode(errors="replace")), dict(names={k.decode("latin-1"): v.decode("latin-1") for k, v in sp_names.items()},
                    targets={k.decode("latin-1"): v.decode("latin-1") for k, v in sp_tgts.items()}), sig="spelling-rc")
            if r1.rc == 0 and open(o1, "rb").read() != open(o2, "rb").read():
                raise Violation("%s: the image depends on how the same paths are spelled" % label,
                                dict(names={k.decode("latin-1"): v.decode("latin-1") for k, v in sp_names.items()},
                                     targets={k.decode("latin-1"): v.decode("latin-1") for k, v in sp_tgts.items()}), sig="spelling-image")
        o1, o2 = os.path.join(sc, "1.sqfs"), os.path.join(sc, "2.sqfs")
        if what == "tar_names":
            r1 = t2s_run(_tar(case, canon_names, canon_tgts), o1)
            r2 = t2s_run(_tar(case, sp_names, sp_tgts), o2)
            both_images(r1, r2, o1, o2, "tar2sqfs member names / hard link targets")
            return CaseInfo(changed >= 1 and r1.rc == 0, ["tar_names"] + (["hardlink_target_spelled"] if any(sp_tgts[p] != canon_tgts[p] for p in sp_tgts) else []))
        if what == "tar_rootbecomes":
            # tar2sqfs --root-becomes D: hard link and symlink targets that lie below D are re-targeted ("adjusted if they are prefixed
            # by the root path"); whether a target lies below D must not depend on how it is spelled.  Symlinks pointing elsewhere are
            # stored verbatim and keep one spelling.
            dirs_ = [n["path"] for n in nodes if n["type"] == "dir" and any(m["path"].startswith(n["path"] + b"/") for m in nodes)]
            if not dirs_:
                raise Inconclusive("no directory with contents")
            D = dirs_[len(dirs_) // 2]
            below = [m["path"] for m in nodes if m["path"].startswith(D + b"/")][:3]
            variants = []
            for k in range(2):
                extra, nm = [], dict(canon_names if k == 0 else sp_names)
                for i, tpath in enumerate(below):
                    d_ = case["deco_name"][tpath]
                    lead = [b"", b"/"][i % 2]
                    tgt = (lead + tpath) if k == 0 else (spell(tpath, (d_[0] or lead, d_[1], b""), False))
                    ln = D + b"/zz_link%d" % i
                    extra.append(dict(path=ln, type="slink", target=tgt))
                    nm[ln] = ln
                variants.append((dict(case, nodes=nodes + extra), nm))
            spelled_root = spell(D, case["s2t_deco"], True)
            r1 = t2s_run(_tar(variants[0][0], variants[0][1], canon_tgts), o1, ["-r", D])
            r2 = t2s_run(_tar(variants[1][0], variants[1][1], sp_tgts), o2, ["-r", spelled_root])
            both_images(r1, r2, o1, o2, "tar2sqfs --root-becomes %r (%r): member names, hard link and symlink targets below it" % (D, spelled_root))
            return CaseInfo(r1.rc == 0 and len(below) >= 1, ["tar_rootbecomes"])
        if what == "tar_exclude":
            ex = case["exclude"]
            r1 = t2s_run(_tar(case, canon_names, canon_tgts), o1, ["-E", ex])
            r2 = t2s_run(_tar(case, sp_names, canon_tgts), o2, ["-E", spell(ex, case["ex_deco"], False)])
            both_images(r1, r2, o1, o2, "tar2sqfs --exclude-dir %r" % ex)
            return CaseInfo(changed >= 1 and r1.rc == 0, ["tar_exclude"])
        if what == "pack_file":
            ind = os.path.join(sc, "in")
            os.mkdir(ind)
            for n in nodes:
                if n["type"] == "file":
                    with open(os.path.join(ind, hashlib.md5(n["path"]).hexdigest()), "wb") as fh:
                        fh.write(n["data"])
            res_ = []
            for k, (nm, tg) in enumerate(((canon_names, {p: b"/" + t for p, t in canon_tgts.items()}), (sp_names, {p: (b"/" + t if not t.startswith(b"/") else t) for p, t in sp_tgts.items()}))):
                lf = os.path.join(sc, "list%d.txt" % k)
                with open(lf, "wb") as fh:
                    fh.write(_pack(case, nm, tg))
                r = vcommon.run([gen, "-F", lf, "-D", sc, "-q", "-c", "gzip", "-b", "4096", (o1, o2)[k]], timeout=60)
                judge(r, "gensquashfs")
                res_.append(r)
            both_images(res_[0], res_[1], o1, o2, "gensquashfs pack file paths / link targets")
            return CaseInfo(changed >= 1 and res_[0].rc == 0, ["pack_file"])
        if what == "sort_file":
            # the names in a sort file (gensquashfs -S): canonical, spelled otherwise, and spelled otherwise inside quotation marks
            # ("if necessary" says the manual: wrapping a name that needs no quoting must not change what it names)
            files_ = [n for n in nodes if n["type"] == "file"]
            if not files_:
                raise Inconclusive("no regular file")
            ind = os.path.join(sc, "in")
            os.mkdir(ind)
            for n in files_:
                with open(os.path.join(ind, hashlib.md5(n["path"]).hexdigest()), "wb") as fh:
                    fh.write(n["data"] + hashlib.sha256(n["path"]).digest() * 40)     # distinct contents: the order shows in the image
            lf = os.path.join(sc, "list.txt")
            with open(lf, "wb") as fh:
                fh.write(_pack(case, canon_names, {p_: b"/" + t_ for p_, t_ in canon_tgts.items()}))
            outs_ = []
            for k in range(4):
                sf = os.path.join(sc, "sort%d.txt" % k)
                with open(sf, "wb") as fh:
                    for i, n in enumerate(files_):
                        nm = [n["path"], sp_names[n["path"]], b'"' + sp_names[n["path"]] + b'"', n["path"]][k]
                        fh.write(b"%d %s%s\n" % (-5 * (i + 1) if i % 2 == 0 else 7 + i, [b"", b"[dont_compress] ", b"[dont_fragment] "][i % 3], nm))
                ok_ = os.path.join(sc, "s%d.sqfs" % k)
                r = vcommon.run([gen, "-F", lf, "-D", sc, "-q", "-c", "gzip", "-b", "4096"] + (["-S", sf] if k < 3 else []) + [ok_], timeout=60)
                judge(r, "gensquashfs")
                outs_.append((r, ok_))
            both_images(outs_[0][0], outs_[1][0], outs_[0][1], outs_[1][1], "gensquashfs sort file names (unquoted)")
            both_images(outs_[0][0], outs_[2][0], outs_[0][1], outs_[2][1], "gensquashfs sort file names (same spelling in quotation marks)")
            effect = outs_[0][0].rc == 0 and outs_[3][0].rc == 0 and open(outs_[0][1], "rb").read() != open(outs_[3][1], "rb").read()
            return CaseInfo(effect and any(sp_names[n["path"]] != n["path"] for n in files_), ["sort_file"] + (["sort_file_changes_image"] if effect else []))
        if what == "pack_glob":
            # the target directory of a glob line, spelled two ways
            ind = os.path.join(sc, "in")
            os.makedirs(os.path.join(ind, "sub"))
            for nm_ in ("one", "two", "sub/three"):
                with open(os.path.join(ind, nm_), "wb") as fh:
                    fh.write(nm_.encode())
            dirs_ = [n["path"] for n in nodes if n["type"] == "dir"]
            tgt = dirs_[len(dirs_) // 2] if dirs_ else b""
            res_ = []
            for k, spelled in enumerate((b"/" + tgt, (sp_names[tgt] if tgt else case["s2t_deco"][0] or b"/"))):
                if not spelled.startswith(b"/"):
                    spelled = b"/" + spelled
                lf = os.path.join(sc, "list%d.txt" % k)
                with open(lf, "wb") as fh:
                    fh.write(b"".join(b"dir " + treemodel_quote(b"/" + d_) + b" 0755 0 0\n" for d_ in dirs_) + b"glob " + treemodel_quote(spelled) + b" 0644 0 0 in\n")
                r = vcommon.run([gen, "-F", lf, "-D", sc, "-q", "-c", "gzip", "-b", "4096", (o1, o2)[k]], timeout=60)
                judge(r, "gensquashfs")
                res_.append(r)
            both_images(res_[0], res_[1], o1, o2, "gensquashfs glob target %r" % tgt)
            return CaseInfo(bool(tgt) and sp_names[tgt] != tgt and res_[0].rc == 0, ["pack_glob"])
        if what == "rd_path":
            r1 = t2s_run(_tar(case, canon_names, canon_tgts), o1)
            if r1.rc != 0:
                raise Inconclusive("image build")
            n = nodes[0] if len(nodes) == 1 else nodes[len(nodes) // 2]
            flag = "-c" if n["type"] == "file" else ("-l" if n["type"] == "dir" else "-s")
            if len(nodes) % 2 == 0:
                flag = ["-x", "-s"][len(nodes) // 2 % 2]          # every option that takes a path goes through the same funnel
            a = vcommon.run([rd, flag, b"/" + n["path"], o1], timeout=30)
            sp = sp_names[n["path"]]
            b = vcommon.run([rd, flag, sp, o1], timeout=30)
            judge(a, "rdsquashfs")
            judge(b, "rdsquashfs")
            if a.rc != b.rc or a.out != b.out:
                raise Violation("rdsquashfs %s %r answers differently from %s %r (exit %d vs %d)" % (flag, sp, flag, b"/" + n["path"], b.rc, a.rc), None, sig="spelling-rd")
            return CaseInfo(sp != n["path"], ["rd_path" + flag])
        if what == "s2t_opts":
            # sqfs2tar --root-becomes / --subdir arguments
            r1 = t2s_run(_tar(case, canon_names, canon_tgts), o1)
            if r1.rc != 0:
                raise Inconclusive("image build")
            s2t = vcommon.tool("asan", "sqfs2tar")
            rootc = case["s2t_root"]
            roots = spell(rootc, case["s2t_deco"], True)
            dirs_ = [n["path"] for n in nodes if n["type"] == "dir"]
            runs = [(["-r", rootc], ["-r", roots], "--root-becomes %r vs %r" % (roots, rootc))]
            if dirs_:
                dsel = dirs_[len(dirs_) // 2]
                runs.append((["-d", dsel], ["-d", sp_names[dsel]], "--subdir %r vs %r" % (sp_names[dsel], dsel)))
            for a_, b_, label in runs:
                ra = vcommon.run([s2t] + a_ + [o1], timeout=30)
                rb = vcommon.run([s2t] + b_ + [o1], timeout=30)
                judge(ra, "sqfs2tar")
                judge(rb, "sqfs2tar")
                if ra.rc != rb.rc or ra.out != rb.out:
                    raise Violation("sqfs2tar %s: different archives (exit %d vs %d)" % (label, rb.rc, ra.rc), None, sig="spelling-s2t")
            # and a '..' in the new root name is refused
            rbad = vcommon.run([s2t, "-r", case["dd_style"] + rootc, o1], timeout=30)
            judge(rbad, "sqfs2tar")
            if rbad.rc == 0:
                raise Violation("sqfs2tar --root-becomes %r (a '..' component) succeeds" % (case["dd_style"] + rootc), None, sig="dotdot-accepted")
            return CaseInfo(roots != rootc, ["s2t_opts"])
        # '..' anywhere must be refused
        where = case["dd_where"]
        victim = nodes[-1]
        bad_names, bad_tgts = dict(canon_names), dict(canon_tgts)
        label = ""
        if where == "target" and canon_tgts:
            p = sorted(canon_tgts)[0]
            bad_tgts[p] = case["dd_style"] + canon_tgts[p]
            label = "hard link target %r" % bad_tgts[p]
        elif where == "arg":
            r1 = t2s_run(_tar(case, canon_names, canon_tgts), o1)
            if r1.rc != 0:
                raise Inconclusive("image build")
            arg = b"/" + case["dd_style"] + victim["path"]
            b = vcommon.run([rd, "-s", arg, o1], timeout=30)
            judge(b, "rdsquashfs")
            if b.rc == 0:
                raise Violation("rdsquashfs -s %r (a '..' component) succeeds" % arg, None, sig="dotdot-accepted")
            return CaseInfo(True, ["dotdot_arg"])
        else:
            bad_names[victim["path"]] = case["dd_style"] + victim["path"]
            label = "member name %r" % bad_names[victim["path"]]
        r2 = t2s_run(_tar(case, bad_names, bad_tgts), o2)
        if r2.rc == 0:
            raise Violation("tar2sqfs accepts %s (a '..' component)" % label, None, sig="dotdot-accepted")
        if os.path.exists(o2):
            raise Violation("tar2sqfs refuses %s but leaves an output file" % label, None, sig="dotdot-output")
        return CaseInfo(True, ["dotdot_" + where])


def strat(tier, opts):
    return funnel_cases(tier)


def main(tier, seed, scale=1.0):
    binp = _harness()
    res = Result(PROP)
    maxlen = 10 if tier == "quick" else 12
    nparts = 16
    jobs = [(binp, ["exh", str(maxlen), str(i), str(nparts)], {}) for i in range(nparts)]
    nrc = int((20000 if tier == "quick" else 400000) * scale)
    rcjobs = [(binp, ["rc"], {"RC_PARAMS": "seed=%d max_success=%d max_size=200" % (seed * 31 + i + 1, nrc // 4)}) for i in range(4)]
    outs = vcommon.pmap(_run, jobs + rcjobs, 16)
    allfails = []
    for rc, out, err, argv in outs:
        allfails += [(hx, why, argv) for hx, why in _digest(res, out, rc, err, argv)]
    total = sum(5 ** k for k in range(maxlen + 1))
    res.exhaustive = True
    res.extra["exhaustive_space"] = "all %d strings over {'/','.','a','b',0xC3} of length 0..%d" % (total, maxlen)
    res.extra["random_cases"] = nrc
    # every enumerated string is distinct; non-trivial = canonical form differs from the input or it is refused
    res.nt_count = res.extra.pop("nontrivial_count", 0)
    res.extra["min_evaluations"] = total
    res.rule = ("exhaustive strings over a 5-letter alphabet up to length %d (each distinct) + %d rapidcheck strings over bytes 1..255 "
                "up to 64 KiB; non-trivial = the specification changes or refuses the string (contains an empty, '.' or '..' "
                "component or a leading/trailing slash); oracle = independent split/drop/join specification, idempotence, "
                "no growth, guard bytes + ASan, is_filename_sane == spec" % (maxlen, nrc))
    res.samples = ["//a/./b/", "a/../b (refused)", "./.a/..b/\\xc3/", ".../a//", "(random) 40..65536-byte strings of '/', '.', letters, bytes 1..255"]
    res.assumptions = ["harness links the asan build of the current tree's lib/util/src/canonicalize_name.c and filename_sane.c"]
    # layer 2
    vbuild.build("asan")
    n2 = int((3000 if tier == "quick" else 60000) * scale)
    vcommon.run_corpus(PROP, check_case, {"prop": PROP}, res)
    for d in vcommon.run_shards("c18", "check_case", "strat", n2, seed, tier, {"prop": PROP}):
        res.merge_shard(d)
    res.nt_count += len(res.nontrivial)
    res.rule += ("; layer 2 (tools): generated small trees whose paths are spelled with extra slashes, './' and '/./' components and trailing '/' or '/.' "
                 "as tar member names, tar hard link targets, --exclude-dir globs, pack file paths and link targets, rdsquashfs path arguments; "
                 "non-trivial = at least one spelling differs from the canonical one; oracle = same exit status and byte-identical image / output as "
                 "with canonical spellings, and refusal of every '..'")
    for hx, why, argv in allfails[:3]:
        case = {"hex": hx, "why": why, "argv": argv}
        p = vcommon.save_replay(PROP, case, why)
        res.violations.append(("%s on input hex=%s" % (why, hx[:200]), p))
    return res


def replay(path):
    binp = _harness()
    d = vcommon.load_replay(path)
    if "hex" not in d["case"]:
        vbuild.build("asan")
        return vcommon.replay_case(PROP, check_case, path, {"prop": PROP})
    res = Result(PROP)
    rc, out, err, argv = _run((binp, ["replay", d["case"]["hex"]], {}))
    if rc != 0:
        res.violations.append((out.strip() or err[-300:], path))
    return res
