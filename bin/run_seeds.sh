#!/bin/bash
# usage: run_seeds.sh [-o resultname] CNN...   -> copies agent demos to /verif/seeded and runs seedtest
out=result.json
if [ "$1" = "-o" ]; then out=$2; shift 2; fi
for id in "$@"; do
  for d in /tmp/agents/$id/_demo/*/; do
    [ -f "$d/patch.diff" ] || continue
    name=$(basename $d)
    dest=/verif/seeded/$id-$name
    if [ -f $dest/$out ]; then continue; fi
    mkdir -p $dest
    [ -f $dest/patch.diff ] || cp -a $d/. $dest/
    rm -rf $dest/__pycache__ $dest/*.sqfs $dest/work $dest/tmp* 2>/dev/null
    echo "=== $id $name"
    extra=""
    [ "$out" != result.json ] && extra="--no-confirm"
    timeout 3000 /verif/bin/seedtest $dest $id $extra > $dest/$out 2>$dest/seedtest.err
    tail -c 700 $dest/$out; echo
  done
done
