/* c10_hist - executes a history of reader API operations on ONE long-lived reader set and, after every step, the same
 * operation on a freshly created reader set; (status, digest of the payload) must be equal (C10).
 *
 *   c10_hist <image> <ops-file> [nofresh]
 * ops-file: one operation per line
 *   root | inode <ref> | lsdir <ref> | lspart <ref> <k> | resolve <path> | inum <n>
 *   read <ref> <off> <len> | block <ref> <i> | frag <ref> | stream <ref> <n> | cross <ref>
 *   xattr <idx> | xdesc <idx> <k> | id <i> | mseek <blk> <off> <n>
 *   rawzip <refA> <refB>            (two cursors on one meta reader, read alternately; the fresh reader set reads them one after the other)
 *   rawls <ref> <k> | rawcont <k>   (sqfs_readdir_state_init + sqfs_meta_reader_readdir on ONE cursor object that lives as long as the
 *                                    reader set: re-initialised after partial listings, continued after other operations)
 * Output: "MISMATCH <line no> <op> long=<status>:<digest> fresh=<status>:<digest>" (exit 3) or "OK <n ops> <n failed ops> <n blocks>".
 */
#include "config.h"
#include "sqfs/compressor.h"
#include "sqfs/data_reader.h"
#include "sqfs/dir_reader.h"
#include "sqfs/dir_entry.h"
#include "sqfs/id_table.h"
#include "sqfs/inode.h"
#include "sqfs/super.h"
#include "sqfs/xattr.h"
#include "sqfs/xattr_reader.h"
#include "sqfs/meta_reader.h"
#include "sqfs/error.h"
#include "sqfs/io.h"
#include "sqfs/dir.h"

#include <inttypes.h>
#include <stdio.h>
#include <stdlib.h>
#include <string.h>

typedef struct {
	sqfs_file_t *file;
	sqfs_super_t super;
	sqfs_compressor_t *cmp;
	sqfs_id_table_t *idtbl;
	sqfs_dir_reader_t *dr;
	sqfs_data_reader_t *data;
	sqfs_xattr_reader_t *xr;
	sqfs_meta_reader_t *mr;
	sqfs_meta_reader_t *dmr;	/* directory table, for the low-level readdir interface */
	sqfs_readdir_state_t cur;	/* never cleared by the harness: sqfs_readdir_state_init is documented to initialise it */
	sqfs_u64 cur_ref;
	long cur_used;
	int cur_valid;
	int ok;
} rset_t;

/* what the long-lived cursor had consumed before the current rawcont: the fresh reader set replays it */
static int g_is_fresh;
static sqfs_u64 g_cont_ref;
static long g_cont_used;
static int g_cont_valid;

static uint64_t fnv(uint64_t h, const void *p, size_t n)
{
	const unsigned char *c = p;
	while (n--) {
		h ^= *c++;
		h *= 1099511628211ULL;
	}
	return h;
}

#define H0 1469598103934665603ULL

/* C19 runs its copies also with SQFS_DIR_READER_DOT_ENTRIES; C10 cannot: with that flag answers depend on history by documentation */
static unsigned int g_dir_reader_flags = 0;

static void rset_close(rset_t *r)
{
	sqfs_drop(r->mr);
	sqfs_drop(r->dmr);
	sqfs_drop(r->xr);
	sqfs_drop(r->data);
	sqfs_drop(r->dr);
	sqfs_drop(r->idtbl);
	sqfs_drop(r->cmp);
	sqfs_drop(r->file);
	memset(r, 0, sizeof(*r));
}

static int rset_open(rset_t *r, const char *path)
{
	sqfs_compressor_config_t cfg;

	memset(r, 0, sizeof(*r));
	if (sqfs_file_open(&r->file, path, SQFS_FILE_OPEN_READ_ONLY))
		return -1;
	if (sqfs_super_read(&r->super, r->file))
		goto fail;
	sqfs_compressor_config_init(&cfg, r->super.compression_id, r->super.block_size, SQFS_COMP_FLAG_UNCOMPRESS);
	if (sqfs_compressor_create(&cfg, &r->cmp))
		goto fail;
	r->idtbl = sqfs_id_table_create(0);
	if (r->idtbl == NULL || sqfs_id_table_read(r->idtbl, r->file, &r->super, r->cmp))
		goto fail;
	r->dr = sqfs_dir_reader_create(&r->super, r->cmp, r->file, g_dir_reader_flags);
	if (r->dr == NULL)
		goto fail;
	r->data = sqfs_data_reader_create(r->file, r->super.block_size, r->cmp, 0);
	if (r->data == NULL || sqfs_data_reader_load_fragment_table(r->data, &r->super))
		goto fail;
	if (!(r->super.flags & SQFS_FLAG_NO_XATTRS)) {
		r->xr = sqfs_xattr_reader_create(0);
		if (r->xr == NULL || sqfs_xattr_reader_load(r->xr, &r->super, r->file, r->cmp))
			goto fail;
	}
	r->mr = sqfs_meta_reader_create(r->file, r->cmp, r->super.inode_table_start, r->super.directory_table_start);
	if (r->mr == NULL)
		goto fail;
	{
		sqfs_u64 limit = r->super.id_table_start;
		if (r->super.fragment_table_start < limit)
			limit = r->super.fragment_table_start;
		if (r->super.export_table_start < limit)
			limit = r->super.export_table_start;
		r->dmr = sqfs_meta_reader_create(r->file, r->cmp, r->super.directory_table_start, limit);
		if (r->dmr == NULL)
			goto fail;
	}
	r->ok = 1;
	return 0;
fail:
	rset_close(r);
	return -1;
}

typedef struct { int status; uint64_t digest; } res_t;

static res_t mk(int st, uint64_t d) { res_t r = { st, d }; return r; }

static res_t do_lsdir(rset_t *r, sqfs_u64 ref, long limit)
{
	sqfs_inode_generic_t *inode = NULL;
	sqfs_dir_reader_state_t state;
	uint64_t h = H0;
	long n = 0;
	int ret = sqfs_dir_reader_get_inode(r->dr, ref, &inode);

	if (ret)
		return mk(ret, 0);
	ret = sqfs_dir_reader_open_dir(r->dr, inode, &state, 0);
	if (ret) {
		sqfs_free(inode);
		return mk(ret, 1);
	}
	for (;;) {
		sqfs_dir_node_t *ent = NULL;
		if (limit >= 0 && n >= limit)
			break;
		ret = sqfs_dir_reader_read(r->dr, &state, &ent);
		if (ret != 0) {
			h = fnv(h, &ret, sizeof(ret));
			break;
		}
		h = fnv(h, ent->name, ent->size + 1);
		h = fnv(h, &ent->type, sizeof(ent->type));
		h = fnv(h, &state.ent_ref, sizeof(state.ent_ref));
		sqfs_free(ent);
		if (++n > 100000)
			break;
	}
	sqfs_free(inode);
	return mk(0, h);
}

static int raw_init(rset_t *r, sqfs_u64 ref)
{
	sqfs_inode_generic_t *inode = NULL;
	int ret = sqfs_dir_reader_get_inode(r->dr, ref, &inode);

	r->cur_valid = 0;
	if (ret)
		return ret;
	ret = sqfs_readdir_state_init(&r->cur, &r->super, inode);
	sqfs_free(inode);
	if (ret)
		return ret;
	r->cur_ref = ref;
	r->cur_used = 0;
	r->cur_valid = 1;
	return 0;
}

/* reads up to limit entries (all if limit < 0) from the cursor; digest == NULL: discard */
static int raw_read(rset_t *r, long limit, uint64_t *digest)
{
	long n = 0;

	for (;;) {
		sqfs_dir_node_t *ent = NULL;
		sqfs_u32 inum = 0;
		sqfs_u64 iref = 0;
		int ret;

		if (limit >= 0 && n >= limit)
			return 0;
		ret = sqfs_meta_reader_readdir(r->dmr, &r->cur, &ent, &inum, &iref);
		if (ret != 0) {
			if (digest)
				*digest = fnv(*digest, &ret, sizeof(ret));
			if (ret < 0)
				r->cur_valid = 0;
			return ret;
		}
		r->cur_used += 1;
		if (digest) {
			*digest = fnv(*digest, ent->name, ent->size + 1);
			*digest = fnv(*digest, &ent->type, sizeof(ent->type));
			*digest = fnv(*digest, &inum, sizeof(inum));
			*digest = fnv(*digest, &iref, sizeof(iref));
		}
		sqfs_free(ent);
		if (++n > 100000)
			return 0;
	}
}

static res_t do_raw(rset_t *r, int cont, sqfs_u64 ref, long limit)
{
	uint64_t h = H0;
	int ret;

	if (!cont) {
		ret = raw_init(r, ref);
		if (ret)
			return mk(ret, 1);
	} else if (!g_is_fresh) {
		g_cont_valid = r->cur_valid;
		g_cont_ref = r->cur_ref;
		g_cont_used = r->cur_used;
		if (!r->cur_valid)
			return mk(-1001, 0);
	} else {
		if (!g_cont_valid)
			return mk(-1001, 0);
		ret = raw_init(r, g_cont_ref);
		if (ret)
			return mk(-1002, (uint64_t)ret);
		ret = raw_read(r, g_cont_used, NULL);
		if (ret != 0 || r->cur_used != g_cont_used)
			return mk(-1003, (uint64_t)ret);	/* the long-lived cursor had got further than a fresh one can */
	}
	raw_read(r, limit, &h);
	return mk(0, h);
}

/* one entry from a cursor into a running digest; returns the readdir status */
static int raw_step(rset_t *r, sqfs_readdir_state_t *cur, uint64_t *digest)
{
	sqfs_dir_node_t *ent = NULL;
	sqfs_u32 inum = 0;
	sqfs_u64 iref = 0;
	int ret = sqfs_meta_reader_readdir(r->dmr, cur, &ent, &inum, &iref);

	if (ret != 0) {
		*digest = fnv(*digest, &ret, sizeof(ret));
		return ret;
	}
	*digest = fnv(*digest, ent->name, ent->size + 1);
	*digest = fnv(*digest, &ent->type, sizeof(ent->type));
	*digest = fnv(*digest, &inum, sizeof(inum));
	*digest = fnv(*digest, &iref, sizeof(iref));
	sqfs_free(ent);
	return 0;
}

/* two directories through two cursors on the same meta reader ("one can swap between multiple states and read several
 * directories interchangeably", meta_reader.h): the long-lived reader set alternates between them entry by entry, the
 * fresh one lists the first completely and then the second; both sequences must come out the same */
static res_t do_rawzip(rset_t *r, sqfs_u64 refa, sqfs_u64 refb)
{
	sqfs_inode_generic_t *ia = NULL, *ib = NULL;
	sqfs_readdir_state_t ca, cb;
	uint64_t ha = H0, hb = H0;
	int ra, rb, ret;
	long n = 0;

	ret = sqfs_dir_reader_get_inode(r->dr, refa, &ia);
	if (ret)
		return mk(ret, 1);
	ret = sqfs_dir_reader_get_inode(r->dr, refb, &ib);
	if (ret) {
		sqfs_free(ia);
		return mk(ret, 2);
	}
	ra = sqfs_readdir_state_init(&ca, &r->super, ia);
	rb = sqfs_readdir_state_init(&cb, &r->super, ib);
	sqfs_free(ia);
	sqfs_free(ib);
	if (ra || rb)
		return mk(ra ? ra : rb, 3);
	if (g_is_fresh) {
		while (raw_step(r, &ca, &ha) == 0 && ++n < 100000)
			;
		n = 0;
		while (raw_step(r, &cb, &hb) == 0 && ++n < 100000)
			;
	} else {
		while ((ra == 0 || rb == 0) && ++n < 200000) {
			if (ra == 0)
				ra = raw_step(r, &ca, &ha);
			if (rb == 0)
				rb = raw_step(r, &cb, &hb);
		}
	}
	return mk(0, fnv(ha, &hb, sizeof(hb)));
}

static res_t do_op(rset_t *r, const char *op, char *args)
{
	uint64_t h = H0;
	int ret;

	if (!strcmp(op, "root") || !strcmp(op, "inode")) {
		sqfs_inode_generic_t *inode = NULL;
		if (!strcmp(op, "root"))
			ret = sqfs_dir_reader_get_root_inode(r->dr, &inode);
		else
			ret = sqfs_dir_reader_get_inode(r->dr, strtoull(args, NULL, 0), &inode);
		if (ret)
			return mk(ret, 0);
		h = fnv(h, &inode->base, sizeof(inode->base));
		h = fnv(h, &inode->data, sizeof(inode->data));
		h = fnv(h, inode->extra, inode->payload_bytes_used);
		sqfs_free(inode);
		return mk(0, h);
	}
	if (!strcmp(op, "lsdir"))
		return do_lsdir(r, strtoull(args, NULL, 0), -1);
	if (!strcmp(op, "lspart")) {
		char *e;
		sqfs_u64 ref = strtoull(args, &e, 0);
		return do_lsdir(r, ref, strtol(e, NULL, 0));
	}
	if (!strcmp(op, "rawls")) {
		char *e;
		sqfs_u64 ref = strtoull(args, &e, 0);
		return do_raw(r, 0, ref, strtol(e, NULL, 0));
	}
	if (!strcmp(op, "rawzip")) {
		char *e;
		sqfs_u64 refa = strtoull(args, &e, 0);
		return do_rawzip(r, refa, strtoull(e, NULL, 0));
	}
	if (!strcmp(op, "rawcont"))
		return do_raw(r, 1, 0, strtol(args, NULL, 0));
	if (!strcmp(op, "resolve")) {
		sqfs_inode_generic_t *root = NULL;
		sqfs_u64 out = 0;
		ret = sqfs_dir_reader_get_root_inode(r->dr, &root);
		if (ret)
			return mk(ret, 0);
		{
			/* an allocation of exactly the length of the path: reads behind its end are visible to ASan */
			char *exact = strdup(args);
			ret = sqfs_dir_reader_resolve_path(r->dr, exact, root, &out);
			free(exact);
		}
		sqfs_free(root);
		return mk(ret, ret ? 0 : out);
	}
	if (!strcmp(op, "inum")) {
		sqfs_u64 out = 0;
		ret = sqfs_dir_reader_resolve_inum(r->dr, (sqfs_u32)strtoul(args, NULL, 0), &out);
		return mk(ret, ret ? 0 : out);
	}
	if (!strcmp(op, "id")) {
		sqfs_u32 id = 0;
		ret = sqfs_id_table_index_to_id(r->idtbl, (sqfs_u16)strtoul(args, NULL, 0), &id);
		return mk(ret, ret ? 0 : id);
	}
	if (!strcmp(op, "mseek")) {
		char *e;
		sqfs_u64 blk = strtoull(args, &e, 0);
		unsigned long off = strtoul(e, &e, 0), n = strtoul(e, NULL, 0);
		unsigned char buf[512];
		if (n > sizeof(buf))
			n = sizeof(buf);
		ret = sqfs_meta_reader_seek(r->mr, blk, off);
		if (ret)
			return mk(ret, 0);
		ret = sqfs_meta_reader_read(r->mr, buf, n);
		if (ret)
			return mk(ret, 1);
		return mk(0, fnv(h, buf, n));
	}
	if (!strcmp(op, "mcont")) {
		/* sequential read from wherever the raw meta reader stands, no seek (only meaningful between a copy and its twin: C19) */
		unsigned long n = strtoul(args, NULL, 0);
		unsigned char buf[512];
		while (n > 0) {
			unsigned long k = n > sizeof(buf) ? sizeof(buf) : n;
			sqfs_u64 blk = 0;
			size_t off = 0;
			ret = sqfs_meta_reader_read(r->mr, buf, k);
			if (ret)
				return mk(ret, h);
			h = fnv(h, buf, k);
			sqfs_meta_reader_get_position(r->mr, &blk, &off);
			h = fnv(h, &blk, sizeof(blk));
			h = fnv(h, &off, sizeof(off));
			n -= k;
		}
		return mk(0, h);
	}
	if (!strcmp(op, "xattr")) {
		sqfs_xattr_t *list = NULL, *it;
		if (r->xr == NULL)
			return mk(-1000, 0);
		ret = sqfs_xattr_reader_read_all(r->xr, (sqfs_u32)strtoul(args, NULL, 0), &list);
		if (ret)
			return mk(ret, 0);
		for (it = list; it != NULL; it = it->next) {
			h = fnv(h, it->key, strlen(it->key));
			h = fnv(h, it->value, it->value_len);
		}
		sqfs_xattr_list_free(list);
		return mk(0, h);
	}
	if (!strcmp(op, "xdesc")) {
		char *e;
		sqfs_u32 idx = (sqfs_u32)strtoul(args, &e, 0);
		long k = strtol(e, NULL, 0), i;
		sqfs_xattr_id_t desc;
		if (r->xr == NULL)
			return mk(-1000, 0);
		ret = sqfs_xattr_reader_get_desc(r->xr, idx, &desc);
		if (ret)
			return mk(ret, 0);
		h = fnv(h, &desc, sizeof(desc));
		ret = sqfs_xattr_reader_seek_kv(r->xr, &desc);
		if (ret)
			return mk(ret, h);
		for (i = 0; i < k && i < (long)desc.count; ++i) {
			sqfs_xattr_entry_t *key = NULL;
			sqfs_xattr_value_t *val = NULL;
			ret = sqfs_xattr_reader_read_key(r->xr, &key);
			if (ret)
				return mk(ret, h);
			h = fnv(h, key->key, key->size);
			ret = sqfs_xattr_reader_read_value(r->xr, key, &val);
			if (ret) {
				sqfs_free(key);
				return mk(ret, h);
			}
			h = fnv(h, val->value, val->size);
			sqfs_free(key);
			sqfs_free(val);
		}
		return mk(0, h);
	}
	/* the remaining operations work on a file inode */
	{
		char *e;
		sqfs_u64 ref = strtoull(args, &e, 0);
		sqfs_inode_generic_t *inode = NULL;
		res_t out = mk(0, 0);

		ret = sqfs_dir_reader_get_inode(r->dr, ref, &inode);
		if (ret)
			return mk(ret, 0);
		if (inode->base.type != SQFS_INODE_FILE && inode->base.type != SQFS_INODE_EXT_FILE) {
			sqfs_free(inode);
			return mk(-2000, 0);
		}
		if (!strcmp(op, "read")) {
			sqfs_u64 off = strtoull(e, &e, 0);
			unsigned long len = strtoul(e, NULL, 0);
			unsigned char *buf;
			sqfs_s32 n;
			if (len > (1 << 20))
				len = 1 << 20;
			buf = malloc(len + 1);
			n = sqfs_data_reader_read(r->data, inode, off, buf, len);
			out = mk(n < 0 ? n : 0, n < 0 ? 0 : fnv(fnv(h, &n, sizeof(n)), buf, n));
			free(buf);
		} else if (!strcmp(op, "block")) {
			size_t sz = 0;
			sqfs_u8 *blk = NULL;
			ret = sqfs_data_reader_get_block(r->data, inode, strtoul(e, NULL, 0), &sz, &blk);
			out = mk(ret, ret ? 0 : fnv(h, blk, sz));
			free(blk);
		} else if (!strcmp(op, "frag")) {
			size_t sz = 0;
			sqfs_u8 *blk = NULL;
			ret = sqfs_data_reader_get_fragment(r->data, inode, &sz, &blk);
			out = mk(ret, ret ? 0 : fnv(fnv(h, &sz, sizeof(sz)), blk, sz));
			free(blk);
		} else if (!strcmp(op, "stream")) {
			unsigned long want = strtoul(e, NULL, 0), got = 0;
			sqfs_istream_t *in = NULL;
			unsigned char buf[4096];
			ret = sqfs_data_reader_create_stream(r->data, inode, "f", &in);
			if (ret) {
				out = mk(ret, 0);
			} else {
				while (got < want) {
					sqfs_s32 n = sqfs_istream_read(in, buf, (want - got) < sizeof(buf) ? (want - got) : sizeof(buf));
					if (n < 0) {
						/* asking the same stream again after a failure must not produce data it never read */
						const sqfs_u8 *ptr = NULL;
						size_t avail = 0;
						int again = in->get_buffered_data(in, &ptr, &avail, 1);
						if (again == 0 && avail > 0) {
							printf("MISMATCH stream %s: read fails with %d, asked again the same stream hands out %zu bytes\n", args, (int)n, avail);
							exit(3);
						}
						h = fnv(h, &n, sizeof(n));
						break;
					}
					if (n == 0)
						break;
					h = fnv(h, buf, n);
					got += n;
				}
				sqfs_drop(in);
				out = mk(0, fnv(h, &got, sizeof(got)));
			}
		} else if (!strcmp(op, "cross")) {
			/* the three data APIs must agree on a file the library can read at all */
			sqfs_u64 size = 0, pos = 0;
			size_t nblk = sqfs_inode_get_file_block_count(inode), i;
			sqfs_istream_t *in = NULL;
			unsigned char *a, *b;
			int bad = 0;
			sqfs_inode_get_file_size(inode, &size);
			if (size > (4u << 20)) {
				sqfs_free(inode);
				return mk(-3000, 0);
			}
			a = calloc(1, size + 1);
			b = calloc(1, size + 1);
			ret = sqfs_data_reader_create_stream(r->data, inode, "f", &in);
			if (ret == 0) {
				/* optional second argument: another file that is read through the same data reader while the stream is
				   open (after its first chunk) - the stream must not notice */
				char *e2 = NULL;
				sqfs_u64 oref = strtoull(e, &e2, 0);
				sqfs_inode_generic_t *oi = NULL;
				int interleaved = 0;
				if (e2 != e && sqfs_dir_reader_get_inode(r->dr, oref, &oi) != 0)
					oi = NULL;
				while (pos < size) {
					sqfs_s32 n = sqfs_istream_read(in, a + pos, (size - pos) > 1000 ? 1000 : (size - pos));
					if (n <= 0)
						break;
					pos += n;
					if (oi != NULL && !interleaved && (oi->base.type == SQFS_INODE_FILE || oi->base.type == SQFS_INODE_EXT_FILE)) {
						unsigned char tmp[64];
						size_t fsz = 0;
						sqfs_u8 *fb = NULL;
						interleaved = 1;
						(void)sqfs_data_reader_read(r->data, oi, 0, tmp, sizeof(tmp));
						if (sqfs_data_reader_get_fragment(r->data, oi, &fsz, &fb) == 0)
							free(fb);
					}
				}
				sqfs_free(oi);
				sqfs_drop(in);
				if (pos == size) {
					sqfs_u64 p2 = 0;
					while (p2 < size) {
						sqfs_s32 n = sqfs_data_reader_read(r->data, inode, p2, b + p2, (size - p2) > 65536 ? 65536 : (sqfs_u32)(size - p2));
						if (n <= 0)
							break;
						p2 += n;
					}
					if (p2 == size && memcmp(a, b, size) != 0)
						bad = 1;
					/* per block access */
					p2 = 0;
					memset(b, 0, size);
					for (i = 0; i < nblk; ++i) {
						size_t sz = 0;
						sqfs_u8 *blk = NULL;
						if (sqfs_data_reader_get_block(r->data, inode, i, &sz, &blk) != 0) {
							p2 = size + 1;
							break;
						}
						if (p2 + sz <= size)
							memcpy(b + p2, blk, sz);
						else if (getenv("VERIF_C10_STRICT"))
							bad = 3;   /* an image the library wrote: a block never holds more than what is left of the file */
						free(blk);
						/* a short block is padded with zeros up to the block size */
						p2 += r->super.block_size;
						if (p2 > size)
							p2 = size;
					}
					if (p2 <= size) {
						size_t sz = 0;
						sqfs_u8 *blk = NULL;
						sqfs_u64 base = (sqfs_u64)nblk * r->super.block_size;
						if (sqfs_data_reader_get_fragment(r->data, inode, &sz, &blk) == 0) {
							if (base + sz <= size && sz > 0)
								memcpy(b + base, blk, sz);
							free(blk);
							if (memcmp(a, b, size) != 0)
								bad = 2;
							if (getenv("VERIF_C10_STRICT") && base + sz != size && sz > 0)
								bad = 3;   /* blocks + fragment add up to the file size */
						}
					}
				}
			}
			out = mk(bad ? -4000 - bad : 0, fnv(h, a, pos));
			free(a);
			free(b);
		} else {
			out = mk(-9999, 0);
		}
		sqfs_free(inode);
		return out;
	}
}

int main(int argc, char **argv)
{
	rset_t L, F;
	FILE *f;
	char line[8192];
	long n = 0, failed = 0, lineno = 0;
	int nofresh = argc > 3;

	if (argc < 3)
		return 2;
	if (rset_open(&L, argv[1]) != 0) {
		puts("UNREADABLE");
		return 0;
	}
	f = fopen(argv[2], "r");
	if (f == NULL)
		return 2;
	while (fgets(line, sizeof(line), f) != NULL) {
		char *args, *nl = strchr(line, '\n');
		res_t a, b;
		++lineno;
		if (nl)
			*nl = '\0';
		if (line[0] == '\0' || line[0] == '#')
			continue;
		args = strchr(line, ' ');
		if (args)
			*(args++) = '\0';
		else
			args = line + strlen(line);
		{
			char *copy = strdup(args);
			a = do_op(&L, line, copy);
			free(copy);
		}
		++n;
		if (a.status != 0)
			++failed;
		if (a.status <= -4000 && a.status > -5000) {
			printf("MISMATCH %ld %s %s: the data APIs disagree on a readable file (%d)\n", lineno, line, args, a.status);
			return 3;
		}
		if (nofresh)
			continue;
		if (rset_open(&F, argv[1]) != 0) {
			printf("MISMATCH %ld fresh reader set cannot be created\n", lineno);
			return 3;
		}
		{
			char *copy = strdup(args);
			g_is_fresh = 1;
			b = do_op(&F, line, copy);
			g_is_fresh = 0;
			free(copy);
		}
		rset_close(&F);
		if (a.status != b.status || a.digest != b.digest) {
			printf("MISMATCH %ld %s %s long=%d:%016" PRIx64 " fresh=%d:%016" PRIx64 "\n", lineno, line, args, a.status, a.digest, b.status, b.digest);
			return 3;
		}
	}
	fclose(f);
	rset_close(&L);
	printf("OK %ld %ld\n", n, failed);
	return 0;
}
