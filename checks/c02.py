"""C02 - determinism: image bytes independent of threads, backlog, schedule and environment.

Layer 1 (CLI, differential + metamorphic): for generated inputs (trees with many multi-block files, many small files ->
several fragment blocks, duplicates; tar archives) gensquashfs / tar2sqfs run with -j 1..64 and the default, -Q 1..10^4,
under src/chaos_shim.c (seeded yields/sleeps around every mutex/condvar operation of the worker pool), with different
TZ, locale, umask, cwd, HOME, fake wall clock and stdout kinds; every image must be byte-identical and equal to the
image written by the serial (NO_THREAD_IMPL) build.
Layer 2: the same inputs with the ThreadSanitizer build; a data race report inside project code is a violation.
Layer 3: the block processor itself (sqfs_block_processor_* on an in-memory file, src/vsched.cc "B:" programs) under the
controlled scheduler of C09: every schedule without preemption and with one preemption for small programs, random schedules
for larger ones; each schedule must read back every file byte-exact and reproduce the digest of (output bytes, inodes,
fragment table) of the first schedule.
"""
import os, hashlib, tempfile
from hypothesis import strategies as st
import vcommon, vbuild, treemodel, packlib, tarimg, scenarios
from vcommon import Violation, Inconclusive, CaseInfo, Result, Scratch

PROP = "C02"


@st.composite
def cases(draw, tier="quick"):
    kind = draw(st.sampled_from(["gen_dir", "gen_file", "t2s"]))
    B = 4096
    comp = draw(st.sampled_from(["gzip", "gzip", "zstd", "lz4", "xz", "lzma"]))
    o = dict(comp=comp, X=draw(st.sampled_from(packlib.COMP_EXTRA[comp])), B=B, T=draw(st.booleans()), e=draw(st.booleans()), j=1, Q=None,
             devblk=None, defaults={}, source_date_epoch=draw(st.sampled_from([None, 1234567])), xattr_styles=[0], quote_all=False, loc_style=0, packdir_mode=1)
    case = dict(kind=kind, opts=o)
    if draw(st.sampled_from([False, False, True])):
        # an explicit default time stamp: SOURCE_DATE_EPOCH then is documented not to matter, so it joins the environment that is varied
        o["defaults"] = {"mtime": draw(st.sampled_from([0, 0, 5, 1234567, 0xFFFFFFFF]))}
        case["vary_sde"] = True
    nbig = draw(st.integers(2, 8))
    nsmall = draw(st.integers(3, 40))
    files = []
    for i in range(nbig):
        files.append(("big%02d" % i, (draw(st.sampled_from(["rand", "text", "mix"])), draw(st.integers(0, 5)), draw(st.integers(2, 12)),
                                      draw(st.integers(0, B - 1))) + (([draw(st.integers(0, 3)) for _ in range(3)],) if False else ())))
    for i in range(nsmall):
        if i >= 2 and draw(st.sampled_from([False, False, False, True])):
            # an exact duplicate of an earlier tail: found in the fragment block being filled, in one in flight, or in one
            # that has to be read back from the output file - which of these depends on backlog and timing
            files.append(("sm%03d" % i, files[nbig + draw(st.integers(0, i - 1))][1]))
        else:
            files.append(("sm%03d" % i, (draw(st.sampled_from(["rand", "rand", "text"])), draw(st.integers(0, 12)) + 100 * i, 0, draw(st.integers(1, B - 1)))))
    fixed = []
    for name, rec in files:
        rec = tuple(rec)
        if rec[0] == "mix":
            rec = rec + ([1, 0, 2],)
        fixed.append((name, rec))
    # directories that the input never declares (pack file, tar): created by the packer itself, so their attributes come from the
    # defaults and from nothing in the environment
    undeclared = kind in ("gen_file", "t2s") and draw(st.sampled_from([False, True]))
    if undeclared:
        case["undeclared_parents"] = True
    if kind in ("gen_dir", "gen_file"):
        nodes = [dict(path=b"d", type="dir", mode=0o755, uid=0, gid=0, mtime=5, xattrs={})]
        for i, (name, rec) in enumerate(fixed):
            p = (b"d/" if i % 3 == 0 else (b"u/v/" if undeclared and i % 3 == 1 else b"")) + name.encode()
            nodes.append(dict(path=p, type="file", mode=0o644, uid=i % 3, gid=0, mtime=7, xattrs={}, content=rec))
        case.update(mode="dir" if kind == "gen_dir" else "file", nodes=nodes)
        if kind == "gen_dir":
            o.update(keep_time=draw(st.booleans()), keep_xattr=False, no_hard_links=False)
        elif draw(st.sampled_from([False, False, True])):
            # per-file packing flags from a sort file (order kept): what is decided for a block must not depend on which file the
            # front end happens to have open when the block comes back from the pool
            fl = st.lists(st.sampled_from(["dont_deduplicate", "dont_deduplicate", "dont_compress", "dont_fragment", "nosparse"]), unique=True, max_size=2)
            case["sort_lines"] = [(i, draw(fl) if draw(st.sampled_from([False, False, True])) else [], n["path"]) for i, n in enumerate(nodes) if n["type"] == "file"]
    else:
        ents = []
        for i, (name, rec) in enumerate(fixed):
            ents.append(dict(name=(b"u/v/" if undeclared and i % 3 == 1 else b"") + name.encode(), type="file", mode=0o644, uid=1, gid=2, mtime=3, xattrs={}, data=treemodel.content_bytes(rec, B),
                             enc=dict(fmt="ustar", num="octal", ostyle=0)))
        case["archive"] = dict(entries=ents, end_marker=True, global_pax=False, trailing_pad=0)
        case["codec"] = None
    case["variants"] = draw(st.lists(st.tuples(
        st.sampled_from([1, 2, 3, 4, 7, 8, 16, 33, 64, None]),            # -j
        st.sampled_from([None, 1, 2, 3, 4, 10, 10000]),                  # -Q
        st.integers(0, 10 ** 6),                                          # chaos seed (0 = none)
        st.sampled_from(["UTC", "Asia/Tokyo", "America/New_York", ":/nonexistent"]),
        st.sampled_from(["C", "en_US.UTF-8", "de_DE.UTF-8", "tr_TR.UTF-8", "POSIX"]),
        st.sampled_from([0o022, 0o077, 0o000, 0o777]),
        st.sampled_from([0, 1, 2000000000, 4102444800]),                 # fake time
        st.sampled_from(["pipe", "file", "devnull", "closed"]),
    ), min_size=5, max_size=9))
    return case


def run_variant(ctx, d, variant, j, Q, chaos, tz, loc, umask, ftime, stdout_kind, shim):
    case = ctx["case"]
    kind = case["kind"]
    out = os.path.join(d, "out.sqfs")
    o = case["opts"]
    if kind in ("gen_dir", "gen_file"):
        args = [a for a in ctx["args"]]
        # replace -j/-Q
        clean = []
        skip = 0
        for a in args:
            if skip:
                skip -= 1
                continue
            if a in ("-j", "-Q"):
                skip = 1
                continue
            clean.append(a)
        cmd = [vcommon.tool(variant, "gensquashfs")] + clean
        stdin = None
    else:
        cmd = [vcommon.tool(variant, "tar2sqfs"), "-q", "-c", o["comp"], "-b", str(o["B"])] + (["-X", o["X"]] if o.get("X") else []) + (["-T"] if o["T"] else []) + (["-e"] if o["e"] else [])
        if "mtime" in (o.get("defaults") or {}):
            cmd += ["-d", "mtime=%d" % o["defaults"]["mtime"]]
        stdin = ctx["stdin"]
    if j is not None:
        cmd += ["-j", str(j)]
    if Q is not None:
        cmd += ["-Q", str(Q)]
    cmd += [out]
    env = {"TZ": tz, "LC_ALL": loc, "LANG": loc, "HOME": d}
    if o.get("source_date_epoch") is not None:
        env["SOURCE_DATE_EPOCH"] = str(o["source_date_epoch"])
    if case.get("vary_sde") and ftime:
        env["SOURCE_DATE_EPOCH"] = str(ftime % 4294967296)
    pre = None
    if shim and (chaos or ftime):
        pre = shim
        if chaos:
            env["VERIF_CHAOS_SEED"] = str(chaos)
        if ftime:
            env["VERIF_FAKE_TIME"] = str(ftime)
    old = os.umask(umask)
    try:
        r = vcommon.run(cmd, stdin=stdin, env=env, preload=pre, cwd=d, timeout=120)
    finally:
        os.umask(old)
    return r, out


def check_case(case, opts):
    shim = opts.get("shim")
    with Scratch("c02") as sc:
        pre = os.path.join(sc, "prep")
        os.mkdir(pre)
        case2 = dict(case)
        ctx = scenarios.prepare(case2, pre, "plain")
        d0 = os.path.join(sc, "serial")
        os.mkdir(d0)
        r, out = run_variant(ctx, d0, "serial", None, None, 0, "UTC", "C", 0o022, 0, "pipe", None)
        if r.rc != 0:
            raise Inconclusive("serial build failed: %s" % r.err[-200:])
        ref = open(out, "rb").read()
        refsha = hashlib.sha256(ref).hexdigest()
        import sqfsimg
        try:
            img = sqfsimg.Image(ref)
            nblocks = sum(len(i.block_sizes) for i in img.inodes.values() if i.type == sqfsimg.T_FILE)
            nfrag = len(img.frags)
        except Exception:
            nblocks = nfrag = 0
        seen = set()
        for n, (j, Q, chaos, tz, loc, umask, ftime, so) in enumerate(case["variants"]):
            d = os.path.join(sc, "v%d" % n)
            os.mkdir(d)
            r, out = run_variant(ctx, d, "plain", j, Q, chaos, tz, loc, umask, ftime, so, shim)
            what = "-j %s -Q %s chaos seed %s TZ=%s LC_ALL=%s umask %o clock %s" % (j, Q, chaos, tz, loc, umask, ftime)
            if r.timeout:
                raise Violation("%s hangs with %s" % (case["kind"], what), None, sig="hang")
            if r.sanitizer():
                raise Violation("%s crashes with %s: %s" % (case["kind"], what, r.sanitizer()), r.err.decode(errors="replace")[-1500:], sig="crash")
            if r.rc != 0:
                raise Violation("%s fails with %s: %s" % (case["kind"], what, r.err[-300:].decode(errors="replace")), None, sig="fails")
            got = open(out, "rb").read()
            if got != ref:
                first = next((i for i in range(min(len(got), len(ref))) if got[i] != ref[i]), min(len(got), len(ref)))
                raise Violation("%s: image written with %s differs from the serial reference build (first difference at byte %d of %d/%d)" % (
                    case["kind"], what, first, len(got), len(ref)), None, sig="image-differs")
            seen.add((j, Q, chaos != 0))
            vcommon.shutil.rmtree(d, ignore_errors=True)
        # layer 2: ThreadSanitizer on one variant
        if opts.get("tsan") and case["variants"]:
            j, Q = case["variants"][0][0] or 4, case["variants"][0][1]
            d = os.path.join(sc, "tsan")
            os.mkdir(d)
            r, out = run_variant(ctx, d, "tsan", max(2, min(j, 8)), Q, 0, "UTC", "C", 0o022, 0, "pipe", None)
            if b"WARNING: ThreadSanitizer" in r.err:
                raise Violation("ThreadSanitizer reports a data race in %s" % case["kind"], r.err.decode(errors="replace")[:3000], sig="tsan")
            if r.rc == 0 and open(out, "rb").read() != ref:
                raise Violation("tsan build image differs from serial reference", None, sig="image-differs")
        maxj = max((j or 16) for j, *_ in case["variants"])
        nontrivial = nblocks >= 4 and nfrag >= 1 and len(seen) >= 3
        cl = ["kind_" + case["kind"], "frag_blocks_%d" % min(nfrag, 3)] + (["undeclared_parents"] if case.get("undeclared_parents") else [])
        if any(v[2] for v in case["variants"]):
            cl.append("chaos")
        return CaseInfo(nontrivial, cl)


def strat(tier, opts):
    return cases(tier)


# ------------------------------------------------------------------ layer 3: the block processor under the controlled scheduler
SCHED_PROGS = [
    "B:5000a,100b,100b",                        # block + tail, duplicate tails
    "B:9000a,3000b,3000c,3000b",                # two blocks + tail; tails fill a fragment block; duplicate of a tail in a finished block
    "B:4096a,4096a,4096z,100c",                 # duplicate block, sparse block
    "B:2000a,2000b,2000c,2000a,2000d,2000a",    # three fragment blocks, duplicates across them
    "B:8192A,100b,8192A,100b",                  # duplicate block runs (compressible)
    "B:4097a!1,3000B,4097a,3000B!4",            # per-file flags: dont_compress, dont_fragment
]


def sched_jobs(tier, seed, binp):
    import random
    J = []
    lim = 100 if tier == "quick" else 1800
    cap0 = 6000 if tier == "quick" else 200000
    cap1 = 9000 if tier == "quick" else 600000
    for prog in SCHED_PROGS:
        for W, N in ((2, 3), (3, 4)):
            J.append((binp, "dfs", W, N, 0, prog, 0, cap0, lim))    # every schedule without preemption (choices at blocking points)
        J.append((binp, "dfs", 2, 3, 0, prog, 1, cap1, lim))        # one preemption
    rng = random.Random(seed)
    for i in range(8 if tier == "quick" else 32):
        nf = rng.randint(4, 9)
        ents = []
        for k in range(nf):
            size = rng.choice([100, 1500, 2000, 3000, 4095, 4096, 4097, 6000, 8192, 9000])
            tag = rng.choice("abcdABz")
            if ents and rng.random() < 0.3:
                ents.append(rng.choice(ents))
            else:
                ents.append("%d%s%s" % (size, tag, rng.choice(["", "", "", "!1", "!4", "!8", "!16"])))
        J.append((binp, "rand", rng.choice([2, 3, 4]), rng.choice([3, 4, 6, 10]), 0, "B:" + ",".join(ents), seed * 100 + i, 1500 if tier == "quick" else 40000, lim))
    return J


def sched_layer(tier, seed, res):
    import c09, json
    binp = c09.harness()
    outs = vcommon.pmap(c09.run_job, sched_jobs(tier, seed, binp), 16)
    total = 0
    complete = []
    for o in outs:
        sm = o["summ"] or {}
        n = sm.get("executions", 0)
        total += n
        res.add_class("sched_%s_W%d" % (("bound%d" % o["a"]) if o["mode"] == "dfs" else "random", o["W"]), n)
        if o["mode"] == "dfs" and sm.get("complete"):
            complete.append("%s W=%d backlog=%d preemption bound %d: all %d schedules" % (o["prog"], o["W"], o["N"], o["a"], n))
        if o["fail"]:
            case = dict(sched=True, W=o["W"], N=o["N"], prog=o["prog"], mode=o["mode"], a=o["a"], fail=o["fail"][:3000])
            try:
                fj = json.loads(o["fail"])
                case["choices"] = [t[0] for t in fj.get("trace", [])]
                what = "%s: %s" % (fj.get("result"), fj.get("msg"))
            except Exception:
                what = o["fail"][:200]
            res.violations.append(("block processor W=%d backlog=%d %s under the controlled scheduler: %s" % (o["W"], o["N"], o["prog"], what),
                                   vcommon.save_replay(PROP, case, what)))
        elif o["rc"] not in (0, -99):
            res.violations.append(("vsched harness exit %s for %s" % (o["rc"], o["prog"]), vcommon.save_replay(PROP, dict(sched=True, job=[str(x) for x in list(o.items())[:8]]), "harness")))
    res.evaluations += total
    # a schedule is non-trivial when it is not the first (reference) one of its program
    res.nt_count = len(res.nontrivial) + max(0, total - len(outs))
    res.samples = (res.samples or [])[:4] + ["controlled scheduler: W=2 backlog=3 program %s (all schedules with <=1 preemption)" % SCHED_PROGS[1],
                                            "controlled scheduler: random schedules, W=%d backlog=%d program %s" % (outs[-1]["W"], outs[-1]["N"], outs[-1]["prog"])]
    res.extra["controlled_scheduler_executions"] = total
    res.extra["controlled_scheduler_complete"] = complete[:40]
    return total


def main(tier, seed, scale=1.0):
    vbuild.build("plain")
    vbuild.build("serial")
    vbuild.build("tsan")
    shim = vbuild.build_shim("chaos_shim")
    n = int((1200 if tier == "quick" else 20000) * scale)
    res = Result(PROP)
    opts = {"prop": PROP, "shim": shim, "tsan": True, "flaky_is_violation": True}
    vcommon.run_corpus(PROP, check_case, opts, res)
    for d in vcommon.run_shards("c02", "check_case", "strat", n, seed, tier, opts):
        res.merge_shard(d)
    if scale >= 0.2:
        sched_layer(tier, seed, res)
    res.rule = ("Hypothesis inputs (2-8 multi-block files, 3-40 small files -> several fragment blocks, duplicates; directory, pack file and tar "
                "input; 5 compressors) x 5-9 variants of (-j 1..64/default, -Q 1..10^4/default, seeded schedule perturbation around every mutex "
                "and condvar operation, TZ, locale, umask, HOME/cwd, fake wall clock) + one ThreadSanitizer run; non-trivial = >=4 data blocks, "
                ">=1 fragment block and >=3 distinct (-j,-Q,perturbation) combinations; oracle = bytes equal to the NO_THREAD_IMPL serial build")
    res.rule += ("; layer 3: block processor programs (blocks, tails, duplicates, sparse, per-file flags) under the controlled scheduler - all "
                 "schedules with 0 and 1 preemptions for 6 programs x 2-3 workers, random schedules for generated programs; oracle = read-back "
                 "byte-exact and digest of output/inodes/fragment table equal to the first schedule's")
    res.assumptions = ["real-thread perturbation samples schedules; the controlled scheduler interleaves at mutex/condvar operations of the pool (worker callbacks run atomically)",
                       "SOURCE_DATE_EPOCH and the command line are inputs and held fixed"]
    res.extra["min_evaluations"] = n // 3
    return res


def replay_sched(path, c):
    import c09, subprocess, re
    binp = c09.harness()
    res = Result(PROP)
    if "choices" not in c:
        return res
    base = [binp, "run", str(c["W"]), str(c["N"]), "0", c["prog"]]
    ref = subprocess.run(base + ["0"], stdout=subprocess.PIPE, stderr=subprocess.PIPE, timeout=60)
    m = re.search(rb'"result": "ok", "msg": "([0-9a-f]+)"', ref.stdout)
    if not m:
        res.violations.append(("reference schedule fails: " + ref.stdout.decode(errors="replace")[:300], path))
        return res
    p = subprocess.run(base + ["-1"] + [str(x) for x in c["choices"]], stdout=subprocess.PIPE, stderr=subprocess.PIPE, timeout=60,
                       env=dict(os.environ, VSCHED_EXPECT=m.group(1).decode()))
    res.evaluations = 1
    if b'"result": "ok"' not in p.stdout:
        res.violations.append((p.stdout.decode(errors="replace")[:300], path))
    return res


def replay(path):
    c = vcommon.load_replay(path)["case"]
    if isinstance(c, dict) and c.get("sched"):
        return replay_sched(path, c)
    vbuild.build("plain")
    vbuild.build("serial")
    vbuild.build("tsan")
    shim = vbuild.build_shim("chaos_shim")
    return vcommon.replay_case(PROP, check_case, path, {"shim": shim, "tsan": True})
